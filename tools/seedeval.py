#!/usr/bin/env python3
"""Evaluate the checks against a seeded change.

usage: seedeval.py <ID> <mN> [--tier quick|thorough] [--skip-demo] [--checks C01,C09] [--round2|--round3]

Takes /tmp/seed/<ID>/out/<mN>.patch (+ demo test, note) or, if already stored,
/verif/seeded/<ID>-<mN>/, confirms the demonstration (fails with the change,
passes without) in scratch copies of /repo under /tmp, runs the registered
check(s) against the changed scratch copy (VERIF_REPO) and records the outcome
in /verif/seeded/<ID>-<mN>/meta.json. /repo itself is never modified.
"""
import json, os, re, shutil, subprocess, sys, time

ENV = dict(os.environ, GOFLAGS='-mod=mod', GOPROXY='off', GOSUMDB='off', GOTOOLCHAIN='local')

def sh(cmd, cwd=None, timeout=3600, env=None):
    p = subprocess.run(cmd, shell=True, cwd=cwd, capture_output=True, text=True, timeout=timeout, env=env or ENV)
    return p.returncode, p.stdout + p.stderr

def main():
    pid, mn = sys.argv[1], sys.argv[2]
    tier = 'quick'
    skip_demo = '--skip-demo' in sys.argv
    checks = [pid]
    srcroot, prefix = '/tmp/seed', ''
    for i, a in enumerate(sys.argv):
        if a == '--tier': tier = sys.argv[i+1]
        if a == '--checks': checks = sys.argv[i+1].split(',')
        if a == '--round2': srcroot, prefix = '/tmp/seed2', 'r2'
        if a == '--round3': srcroot, prefix = '/tmp/seed3', 'r3'
    store = f'/verif/seeded/{pid}-{prefix}{mn}'
    src = f'{srcroot}/{pid}/out'
    os.makedirs(store, exist_ok=True)
    if not os.path.exists(f'{store}/patch.diff'):
        shutil.copy(f'{src}/{mn}.patch', f'{store}/patch.diff')
        shutil.copy(f'{src}/{mn}_demo_test.go', f'{store}/demo_test.go')
        if os.path.exists(f'{src}/{mn}.md'):
            shutil.copy(f'{src}/{mn}.md', f'{store}/note.md')
    meta_path = f'{store}/meta.json'
    meta = json.load(open(meta_path)) if os.path.exists(meta_path) else {'property': pid, 'change': mn}
    first = open(f'{store}/demo_test.go').readline()
    m = re.search(r'place at:\s*(\S+)', first)
    place = m.group(1) if m else None
    meta['demo_place'] = place
    scratch = f'/tmp/seedeval/{pid}-{prefix}{mn}'
    shutil.rmtree(scratch, ignore_errors=True)
    os.makedirs('/tmp/seedeval', exist_ok=True)
    sh(f'rsync -a --exclude .git /repo/ {scratch}/')
    try:
        if not skip_demo and place:
            pkgdir = os.path.dirname(place)
            shutil.copy(f'{store}/demo_test.go', f'{scratch}/{place}')
            rc0, out0 = sh(f'timeout 900 go test -vet=off -count=1 ./{pkgdir}/ 2>&1 | tail -15', cwd=scratch)
            ok_without = ' ok ' in ('\n' + out0).replace('\nok', '\n ok ').replace('\t', ' ') and 'FAIL' not in out0
            meta['demo_without_change'] = 'pass' if ok_without else 'FAIL: ' + out0[-600:]
        rc, out = sh(f'patch -p1 < {store}/patch.diff', cwd=scratch)
        if rc != 0:
            meta['apply'] = 'FAILED: ' + out[-500:]
            print('patch does not apply', out)
            json.dump(meta, open(meta_path, 'w'), indent=1)
            return 2
        meta['apply'] = 'ok'
        rc, out = sh('go build ./... 2>&1 | tail -5', cwd=scratch)
        meta['builds'] = (out.strip() == '')
        if not skip_demo and place:
            rc1, out1 = sh(f'timeout 900 go test -vet=off -count=1 ./{pkgdir}/ 2>&1 | tail -30', cwd=scratch)
            meta['demo_with_change'] = 'fails' if 'FAIL' in out1 else 'PASSES (not confirmed): ' + out1[-300:]
            os.remove(f'{scratch}/{place}')
        res = meta.setdefault('checks', {})
        for c in checks:
            outdir = f'/tmp/seedeval/out/{pid}-{prefix}{mn}-{c}'
            shutil.rmtree(outdir, ignore_errors=True)
            os.makedirs(outdir, exist_ok=True)
            t0 = time.time()
            env = dict(ENV, VERIF_REPO=scratch, VERIF_OUT=outdir)
            rc, out = sh(f'timeout 7200 /verif/bin/verif check {c} --tier {tier} 2>&1 | tail -40', env=env)
            viol = [l for l in out.splitlines() if l.startswith('VIOLATION')]
            labels = sorted(set(re.findall(r'(?:violated|label)[= ]+([\w.\-<>]+)', out)))
            ev = {}
            try:
                ev = json.load(open(f'{outdir}/evidence/{c}.json'))
            except Exception:
                pass
            res[f'{c}/{tier}'] = {'detected': bool(viol), 'violation_lines': viol[:5], 'wall_s': round(time.time()-t0, 1),
                                  'tail': out[-1500:] if not viol else out[-800:]}
            print(f'{pid}-{prefix}{mn} check {c}/{tier}: detected={bool(viol)} ({round(time.time()-t0)} s)')
            for v in viol[:3]: print('  ', v)
            shutil.rmtree(outdir, ignore_errors=True)
        json.dump(meta, open(meta_path, 'w'), indent=1)
    finally:
        shutil.rmtree(scratch, ignore_errors=True)
    return 0

if __name__ == '__main__':
    sys.exit(main())
