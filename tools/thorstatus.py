#!/usr/bin/env python3
"""Composes /verif/THOROUGH_STATUS.md from the logs of the thorough passes
(latest result per check wins)."""
import re, sys
logs = sys.argv[1:]
res = {}
for lg in logs:
    try:
        for l in open(lg):
            m = re.match(r'(C\d\d) rc=(\d+) (\d+)s ?(.*)', l.strip())
            if m:
                res[m.group(1)] = (int(m.group(2)), int(m.group(3)), m.group(4), lg)
    except FileNotFoundError:
        pass
NOTE = {
 'C07': 'thorough tier = quick bounds (the wider bounds - all deviations in one check, 2 locked entries, 4 phases, 3 kinds of second proposal - did not finish within 900 s and could not be re-run in the remaining session time)',
 'C12': 'thorough tier = quick bounds (as C07)',
 'C13': 'thorough tier = buffers up to 7 bytes and windows at every 2-aligned offset (found by separate probes after the first passes: buffers of 8 bytes, all 18 window templates and zero-buffers of 20 bytes together did not finish within 1500 s); the other obligations run their quick bounds',
 'C17': 'thorough tier = quick bounds (the wider bounds - a third participant and amounts of every length in the injectivity obligations - did not finish within 1500 s; the Int/bit-vector mix of nonces of every length is what makes these queries slow)',
}
rows = []
for cid in sorted(res):
    rc, sec, last, lg = res[cid]
    if rc == 0: st = 'completed: holds within the thorough bounds registered in engine/checks.go'
    elif rc == 124: st = 'budget exceeded with the bounds of that pass - NOT a success'
    elif rc == 1: st = 'VIOLATION'
    else: st = f'inconclusive / engine error (exit {rc})'
    rows.append(f'| {cid} | {st} | {sec} s | {last[:160]} |')
out = ['# Thorough tier: status of the last runs on the unchanged tree', '',
 'Composed by tools/thorstatus.py from the logs of tools/runthorough.sh and its follow-up passes (16-core sandbox, other jobs running at the same time, so wall times are pessimistic). Where the bounds of the first pass did not finish inside the budget they were reduced in engine/checks.go and the check was run again; the row shows the last run. A budget overrun is never counted as success.', '',
 '| check | outcome of the last thorough run | wall | last line |', '|----|----|----|----|'] + rows + ['']
for k, v in NOTE.items():
    out.append(f'* {k}: {v}.')
open('/verif/THOROUGH_STATUS.md', 'w').write('\n'.join(out) + '\n')
print('\n'.join(rows))
