#!/bin/bash
# usage: tools/runh.sh <timeout_s> <pkg> <Harness>   (env passes through)
t=$1; shift
timeout $t /verif/bin/verif run "$@" 2>&1 | python3 -c "
import json,sys
txt=sys.stdin.read()
try:
    i=txt.index('\n{')+1  if not txt.startswith('{') else 0
except ValueError:
    print(txt[-3000:]); sys.exit(1)
print(txt[:i][:2500])
d=json.loads(txt[i:])
print('paths',d['paths'],'wall',round(d['wall_s'],1),'solver',round(d['solver_s'],1),d['inconclusive'], d['outcomes'], d['known'])
print('reached',d['reached'])
for v in d['violations'] or []:
    print(v['Label'], v['Kind']); print(v['Detail'][:800])
"
