#!/bin/bash
# Runs the thorough tier of every registered check with a per-check budget and
# records the outcome in /verif/THOROUGH_STATUS.md. Evidence of a thorough run is
# written to a scratch directory (VERIF_OUT) so that /verif/evidence keeps the
# quick-tier evidence of the last registered run.
# usage: tools/runthorough.sh [budget_seconds] [ids...]
cd /verif
budget=${1:-1800}; shift
ids=${@:-C16 C02 C15 C14 C11 C17 C20 C13 C08 C05 C19 C18 C10 C06 C01 C09 C07 C12}
out=/var/tmp/verif-thorough
mkdir -p $out
for id in $ids; do
  s=$(date +%s)
  VERIF_OUT=$out timeout $budget ./bin/verif check $id --tier thorough > $out/$id.log 2>&1
  rc=$?
  e=$(( $(date +%s) - s ))
  last=$(grep -E "^(OK|VIOLATION|ENGINE-ERROR)" $out/$id.log | tail -1 | cut -c1-200)
  case $rc in
    0) st="completed, holds within the thorough bounds";;
    1) st="VIOLATION";;
    124) st="budget of ${budget}s exceeded (not a success; quick bounds remain the registered claim)";;
    *) st="inconclusive / engine error (exit $rc)";;
  esac
  echo "| $id | $st | ${e}s | $last |" >> $out/status.rows
  echo "$id rc=$rc ${e}s $last"
done
{
  echo "# Thorough tier: status of the last runs on the unchanged tree"
  echo
  echo "Written by tools/runthorough.sh (budget per check: ${budget}s on this 16-core sandbox). A check whose thorough bounds did not finish inside the budget is **not** counted as success: its registered claim stays the quick-tier bounds; the thorough command remains available with a larger budget."
  echo
  echo "| check | outcome | wall | last line |"
  echo "|----|----|----|----|"
  cat $out/status.rows
} > /verif/THOROUGH_STATUS.md
