#!/usr/bin/env python3
"""Fills the generated tables of DESIGN.md (between marker comments) from
evidence/*.json and seeded/*/meta.json."""
import json, glob, os, re

def check_table():
    rows = ["| id | obligations (harness [bounds]: paths) | solver queries | solver time | quick wall | verdict |", "|----|----|----|----|----|----|"]
    for f in sorted(glob.glob('/verif/evidence/C*.json')):
        d = json.load(open(f))
        cov = d.get('coverage', {})
        parts = []
        for o in cov.get('samples') or []:
            b = o.get('bounds') or {}
            bs = ' [' + ','.join(f"{k}={v}" for k, v in sorted(b.items())) + ']' if b else ''
            parts.append(f"{o.get('obligation','?')}{bs}: {o.get('paths','?')}")
        v = 'holds within bounds' if not d.get('violations') else 'VIOLATED'
        kn = cov.get('known_findings') or []
        if kn: v += ' (KNOWN-FINDING ' + ', '.join(sorted(set(str(k) for k in kn))) + ')'
        sol = cov.get('solver', {})
        rows.append(f"| {d['property_id']} ({d.get('tier','')}) | {'; '.join(parts)} | {cov.get('transitions','')} | {round(sol.get('total_s',0))} s | {round(d.get('wall_s',0))} s | {v} |")
    return '\n'.join(rows)

NOTES = {}
def seed_table():
    rows = ["| change | site and effect (short) | needs | caught by (quick tier, final) | history |", "|----|----|----|----|----|"]
    tot = det = 0
    for d in sorted(glob.glob('/verif/seeded/*/')):
        name = os.path.basename(d.rstrip('/'))
        mp = d + 'meta.json'
        if not os.path.exists(mp): continue
        m = json.load(open(mp))
        cells = []
        anydet = False
        for k, v in m.get('checks', {}).items():
            if v.get('detected'):
                anydet = True
                labs = sorted(set(os.path.basename(l.split('replay=')[1]).rsplit('-', 1)[0] for l in v['violation_lines']))
                cells.append(f"{k}: {', '.join(labs[:3])}")
            else:
                cells.append(f"{k}: not caught")
        tot += 1; det += anydet
        rows.append(f"| {name} | {m.get('short','')} | {m.get('needs','')} | {'; '.join(cells)} | {m.get('fixed_by','')} |")
    rows.append(f"Final state: {det} of {tot} stored changes are reported as VIOLATION (confirmed by native replay) by the quick tier of a registered check.")
    return '\n'.join(rows)

def main():
    p = '/verif/DESIGN.md'
    s = open(p).read()
    for marker, gen in (('CHECKTABLE', check_table), ('SEEDTABLE', seed_table)):
        pat = re.compile(r'<!-- %s -->.*?(?=\n\n)' % marker, re.S)
        s = pat.sub(lambda m: '<!-- %s -->\n%s' % (marker, gen()), s, count=1)
    open(p, 'w').write(s)

if __name__ == '__main__':
    main()
