#!/usr/bin/env python3
"""Regenerates /verif/MANIFEST.json from the table below and validates it and
all evidence files against the schemas."""
import json, sys, os, glob

TECH = "bounded symbolic execution of the real code's go/ssa by /verif/engine (gosym), assertions decided by z3 over all values within the stated bounds; counterexamples replayed natively"

CHECKS = {
 "C01": dict(
  text="Solver-decided, bounded: the representation invariant (every current signature verifies for the current state or all slots are nil; staged slots verify for the staged state) is shown inductive: from an arbitrary machine satisfying it, any one of the 17 operations with symbolic arguments (all signature kinds, any index below N) re-establishes it; an unsigned current state arises only from SetProgressed; Sig() signs only in signing phases and only the staged state. One inductive step covers call sequences of any length; a BMC obligation from 9 API-reached milestone states re-verifies CurrentTX() with channel.Verify after every step.",
  note="Trusted: go/ssa lowering, interpreter (translator-validated), z3; ideal signature scheme under the real sim backend code; the invariant as stated in the evidence.",
  ref="DESIGN.md §3 C01"),
 "C02": dict(
  text="Solver-decided, bounded: for every well-formed current state and every candidate within 13 shape variants (all leaves symbolic, amounts unbounded integers) the real StateMachine.Update accepts only candidates satisfying an independent reference predicate written from the property text, never panics, and leaves phase/staging/current untouched and refuses to sign when it refuses; same for Init and CheckUpdate (with the peer's valid signature); no verdict carries over from CheckUpdate to a following Update of the edited candidate or another actor; Allocation.Valid is exact at the 1024/1025 limits.",
  note="Trusted: go/ssa lowering, interpreter (translator-validated per run), z3 (linear integer arithmetic for the sums); the reference predicate of DESIGN.md Appendix A.1.",
  ref="DESIGN.md §3 C02, Appendix A.1"),
 "C05": dict(
  text="Engine/solver-decided, bounded: the real watcher (all its goroutines, pub-subs and registry, run by the engine's scheduler on a virtual clock) against a scripted RegisterSubscriber, for all histories of up to h steps with symbolic versions: a registered event below the newest published version (and not below what the watcher registered itself) triggers exactly one Register call with the newest parent transaction and, for a locked sub-channel, its newest or archived transaction; nothing newer known -> no call; registered events reach the client strictly increasing; progressed/concluded events are always relayed; a refused StopWatching leaves the channel watched and can be repeated; a failed registration registers nothing (the next stale event is refuted again); registered events for both channels of a family handled concurrently (the Register stub is a schedule point) have the outcome of one of the two sequential orders. The refused-stop defect (F15) found this way was repaired.",
  note="Trusted: go/ssa lowering, interpreter with cooperative scheduler, virtual clock and context model (translator-validated natively), z3; bounded histories and schedules.",
  ref="DESIGN.md §3 C05, Appendix A.5"),
 "C06": dict(
  text="Engine/solver-decided, bounded: two real clients (request loops, relays, receivers, machines) on an in-harness bus run the update protocol for programs of n sequential proposals by either party with symbolic amounts and accept/reject decisions, and for two concurrent proposals on one or two channels under delay-bounded schedule exploration: Update returns nil iff the peer's handler accepted, then both parties hold the proposed state with both signatures; a rejection (PeerRejectedError) leaves both states and versions unchanged with both parties in phase Acting and their machine mutexes free; current transactions are fully signed in every explored run; without timeouts both parties end with the same state at version initial + number of successes.",
  note="Trusted: go/ssa lowering, interpreter with cooperative scheduler, virtual clock and context model (translator-validated natively), z3; ideal signatures; invariants are compared at quiescent points, not between individual machine steps; lossless order-preserving bus.",
  ref="DESIGN.md §3 C06"),
 "C07": dict(
  text="Solver-decided, bounded: a real client with an open channel in an arbitrary state receives update messages crafted by the channel peer (arbitrary balances plus one of 12 structural deviations, 5 kinds of signature material, arbitrary actor index); the user's handler is reached, and the client's signature is sent, only for updates satisfying an independent acceptability predicate (peer's signature over exactly the proposed state, valid successor, actor = signer, locked sub-allocations unchanged incl. index maps); automatically accepted sub-channel funding/settlement updates and virtual channel funding/settlement proposals are countersigned only if they add/remove exactly that channel's sub-allocation and move exactly each participant's balance. Five genuine defects found this way (F16, F17, F16v, F12, F20) were repaired.",
  note="Trusted: go/ssa lowering, interpreter (translator-validated), z3; ideal signatures; the acceptability predicates written in the harness from the property text; two participants, one asset.",
  ref="DESIGN.md §3 C07"),
 "C08": dict(
  text="Solver-decided, bounded: ledger, sub-channel and virtual channel proposals, well-formed with symbolic leaves and with each of 24 single deviations, are handed to a real client with or without a matching parent channel: the proposal handler is invoked only for proposals an independent validity predicate (DESIGN.md Appendix A.4) accepts, nothing panics and the parent's mutex is released; both sides' parameter derivation from the same (proposal, accept) pair yields identical parameters, participant order, flags and ID; under ideal SHA3/SHA-256 the ID changes exactly when the proposer's or the responder's nonce share changes; accept messages of another type or proposal ID are refused. Six genuine defects found this way (F10, F10b, F10c, F11, F19 and the NewParams address check) were repaired.",
  note="Trusted: go/ssa lowering, interpreter (translator-validated), z3; ideal hashes and signatures; the initial signature exchange over a live bus under all schedules is outside (only the deterministic derivation and validation are encoded).",
  ref="DESIGN.md §3 C08, Appendix A.4"),
 "C12": dict(
  text="Engine/solver-decided, bounded: each request handler of a real client (sync, update, all proposal kinds, virtual channel funding and settlement) is run from an arbitrary channel state on messages with arbitrary field values within what the decoders can deliver, including ones correctly signed by the counterparty; no goroutine panics, and at quiescence (all virtual-time timeouts fired) every machine mutex is free, at most one response was sent per request and the phase is one an honest request can proceed from. Seven genuine defects found this way (F14, F14b, F11, F19, F20, F12, F12s) were repaired.",
  note="Trusted: go/ssa lowering, interpreter with scheduler, virtual clock and context model (translator-validated), z3; single adversarial message (two for virtual channels) per run from an arbitrary state instead of long sequences; decoders themselves are C13/C14.",
  ref="DESIGN.md §3 C12"),
 "C09": dict(
  text="Solver-decided, bounded: from an arbitrary invariant-satisfying machine (all 12 phases x staging/current shapes, symbolic state leaves) each of the 17 operations returns nil exactly when the reference automaton written from the method documentation enables it, then reaches the documented phase with the documented effect, and otherwise leaves phase, staging and current transaction (identity, slots and contents) unchanged; never panics for indices below N.",
  note="Trusted: go/ssa lowering, interpreter (translator-validated), z3; reference automaton of DESIGN.md Appendix A.2; ideal signatures.",
  ref="DESIGN.md §3 C09, Appendix A.2"),
 "C10": dict(
  text="Solver-decided, bounded: from an arbitrary invariant-satisfying machine whose store is its full dump, every operation of the persisting state machine with every crash point (before any store write event, or none) restores to exactly the machine before or after the operation (index, parameters, phase, current transaction, staged state with exactly its signatures, peers, parent), to the state after if the operation completed, and re-establishes 'store = dump' (inductive: covers histories of any length); real PersistRestorer over the real in-memory sorted store. The stale-signature defect (F8) found this way was repaired.",
  note="Trusted: go/ssa lowering, interpreter (translator-validated), z3; ideal signatures; write-event crash granularity; LevelDB outside.",
  ref="DESIGN.md §3 C10"),
 "C11": dict(
  text="Solver-decided, bounded: for all histories of up to h create/advance/remove steps over three channels with overlapping peer lists and a parent/child pair, after every step each restorer view (RestoreAll, RestorePeer, ActivePeers, RestoreChannel) and the raw key set agree with the reference set of live channels, and restored channels equal their own live machines leaf by leaf; one channel id contains the store's key separator ':'; channels are registered with the store before or after their first state changes (both orders exist in the client); channels of 3, 10 and 11 participants leave nothing behind when removed. The parent-key residue defect (F9) found this way was repaired.",
  note="Trusted: go/ssa lowering, interpreter (translator-validated), z3; bounded histories; LevelDB outside.",
  ref="DESIGN.md §3 C11"),
 "C13": dict(
  text="Solver-decided, bounded: every native decoder entry point, run on a fully symbolic buffer of every length up to L and on valid encodings with an arbitrary 4-byte window (plus truncation), never panics, never allocates more than 65536 elements from an unread length field, and on success the declared counts are within the documented limits (lengths read from the wire are symbolic: make(n) forks into exact small lengths and a symbolic-length class); the protobuf serializer's Decode is run on generated structs with one arbitrary deviation each; longer inputs are covered by mostly-zero buffers (3 arbitrary bytes anywhere in up to 14 zero bytes), sparse signatures with their full payload, big integers with declared lengths up to 255, and balance matrices / sub-allocations with one dimension at its limit or one above and every declared element present (success exactly within the limits). Known findings F2b (unbounded 32-bit lengths in address maps/arrays and AuthResponse) and F3pb (unknown backend key in protobuf) are reported as KNOWN-FINDING; six genuine defects found this way were repaired by fix: commits.",
  note="Trusted: go/ssa lowering, interpreter (translator-validated incl. native allocation proxy), z3; proto.Marshal/Unmarshal modelled by contract.",
  ref="DESIGN.md §3 C13"),
 "C14": dict(
  text="Solver-decided, bounded: for every value type and all 17 message types within the shape bounds (all leaves symbolic) the real Encode followed by the real Decode succeeds, yields a value equal under an independent field-by-field comparator (and under the repository's Equal), consumes exactly its bytes (3 arbitrary trailing bytes stay), and re-encodes to the same bytes; two envelopes back to back decode in order; the protobuf serializer (From*/To*, framing) returns an equal message that re-encodes natively to the same bytes; the BigInt codec is covered for every length 0..129.",
  note="Trusted: go/ssa lowering, interpreter (translator-validated natively incl. the real protobuf library), z3; proto.Marshal/Unmarshal modelled by contract.",
  ref="DESIGN.md §3 C14"),
 "C15": dict(
  text="Solver-decided, bounded: for all pairs of values within the shape bounds (independent shapes and all single-field variants, every leaf symbolic) the real Equal/AssertEqual functions agree with byte equality of the real encodings, and the real sim backend's Sign/Verify (over an ideal hash and signature scheme) accept exactly (same signer, equal state). Not a proof: larger dimensions and longer amounts are outside.",
  note="Trusted: go/ssa lowering, the interpreter (validated per run against native execution on random vectors), z3; idealised SHA-256/ECDSA; representation assumptions listed in the evidence.",
  ref="DESIGN.md §3 C15"),
 "C16": dict(
  text="Solver-decided, bounded: each primitive read site of the native codec returns the same value for every partition of its bytes into read chunks (all 2^(n-1) partitions, symbolic content) and never reads past its frame; two consecutive envelopes decode identically through the perunio and the protobuf envelope serializers under a bounded family of chunkings (uniform 1..8, every single cut, every double cut, all partitions of the first protobuf frame); fields of 101..255 bytes are read through uniform chunks of 1..3 bytes (hundreds of reads). The protobuf single-Read defect (F7) found this way was repaired.",
  note="Trusted: go/ssa lowering, interpreter (translator-validated for the native parts), z3; proto.Marshal/Unmarshal modelled by contract.",
  ref="DESIGN.md §3 C16"),
 "C17": dict(
  text="Solver-decided, bounded: with an ideal (collision-free) SHA-256 the real NewParams/CalcID give equal IDs for two parameter sets exactly when all ID-relevant fields are equal, for every single-field variant and for independent pairs within the shape bounds; Clone and Encode/Decode preserve ID and fields; NewParams refuses exactly the documented invalid parameters at the exact boundaries and Params.Decode refuses well-formed encodings of the same invalid parameters; machine-created states carry params.ID().",
  note="Trusted: go/ssa lowering, the interpreter (translator-validated per run), z3; hash idealisation (equal digest iff equal byte stream fed to the hasher by the real CalcID).",
  ref="DESIGN.md §3 C17"),
 "C18": dict(
  text="Engine/solver-decided, bounded: all histories of up to h relay operations and all operation-level interleavings of T goroutines x k operations (symbolic predicate verdicts) deliver every envelope exactly as the reference model of the statement prescribes (each matching subscriber once, else cache then first matching later subscriber once, else default handler once; never to a rejecting predicate; nothing lost or duplicated at quiescence), and every explored execution is free of data races under a happens-before detector; the Put/Put race on the cache (F18) found this way was confirmed by go test -race and repaired.",
  note="Trusted: go/ssa lowering, interpreter with cooperative scheduler and vector-clock race detector (assertion outcomes translator-validated natively), z3; bounded threads, preemption bound 0.",
  ref="DESIGN.md §3 C18, Appendix A.6"),
 "C19": dict(
  text="Solver-decided, bounded: for every cloneable type and shape within the bounds the clone equals the original (repository Equal and an independent leaf comparison), and after an arbitrary mutation (chosen by Choice over every mutable location, with symbolic deltas) applied to either side the other side is leaf-for-leaf what it was; covers State, Allocation, Balances, Params, Transaction, CloneSigs, StateMachine, ActionMachine, CloneSource, FromSource, slices with spare capacity (append on both sides) and the machine's transaction history (through an overlay-only accessor).",
  note="Trusted: go/ssa lowering, interpreter (its pointer/aliasing semantics are translator-validated natively on the same harness), z3.",
  ref="DESIGN.md §3 C19"),
 "C20": dict(
  text="Solver/engine-decided, bounded: for every asset list, registered set, failing set and every completion order of the concurrent sub-calls within the bounds, the real multi.Adjudicator.Register/Progress/Withdraw and multi.Funder.Fund call each distinct registered ledger exactly once with the right method and nobody else, return nil exactly when every distinct ledger is registered and no call failed, and fund the egoistic ledger only after all other ledgers returned successfully; LedgerIDs yields the distinct ledgers in first-occurrence order (symbolic ids). Shapes and schedules are enumerated exhaustively within the bound by the engine's scheduler; ids in the LedgerIDs obligation are symbolic.",
  note="Trusted: go/ssa lowering, interpreter and its cooperative scheduler (translator-validated natively on random vectors), context model; preemption bound 0.",
  ref="DESIGN.md §3 C20, Appendix A.7"),
}

NOT_APPLICABLE = {
 "C03": "the property is observed on a ledger (payouts, totals, 'nothing remains held'): the adjudicator/funder with challenge timeouts and balances is not part of go-perun's code (only a wall-clock test mock exists), so deciding it means inventing and modelling that environment and running whole open-update-settle scenarios of two clients with watcher and subscription loops over time - a protocol model of an assumed ledger rather than symbolic execution of the real code; beyond what the encoder reaches. The parts that are real code are claimed separately: agreement on the last state (C06), what is countersigned (C07), what the watcher registers (C05), what the adjudicator is asked per ledger (C20), what the machine lets through (C01/C02/C09)",
 "C04": "needs the same invented ledger as C03 plus adversarial timing of on-chain registration against in-flight updates measured against the challenge period (logical time on a ledger that is not part of the code); its data-dependent core - the watcher refutes with the newest channel-tree states exactly once - is claimed as C05, including concurrent events for a channel family",
}
PENDING = "check not built yet in this session (will be registered once its bounds run clean on the unchanged tree)"

def main():
    props = [json.loads(l)["id"] for l in open("/verif/properties.jsonl")]
    checks = []
    for pid in props:
        if pid not in CHECKS: continue
        c = CHECKS[pid]
        checks.append({
            "property_id": pid,
            "quick_cmd": f"./bin/verif check {pid} --tier quick",
            "thorough_cmd": f"./bin/verif check {pid} --tier thorough",
            "evidence_file": f"/verif/evidence/{pid}.json",
            "replay_cmd_template": "./bin/verif replay {path}",
            "engine": "gosym",
            "level_claimed": {"category": "model_checking", "text": c["text"], "design_ref": c["ref"]},
            "level_note": c["note"],
            "technique": TECH,
        })
    na = []
    for pid in props:
        if pid in CHECKS: continue
        na.append({"property_id": pid, "reason": NOT_APPLICABLE.get(pid, PENDING)})
    m = {
     "version": 1,
     "setup_cmd": "cd engine && GOFLAGS=-mod=mod GOPROXY=off GOSUMDB=off GOTOOLCHAIN=local go build -o ../bin/verif .",
     "hooks": {
      "guard": "verif",
      "enable": "no hooks: harnesses and the harness runtime are injected with go/packages Overlay (engine) and go test -overlay (native replay); nothing is written into /repo",
      "baseline_off_cmd": "for m in $(cat /w/out/gomods.txt); do MF=$(cd /repo/$m && . /w/out/goenv.sh && gomodflag); (cd /repo/$m && go test $MF -json -vet=off -count=1 -timeout 25m ./...); done",
      "source_commits": [],
      "add_only": True,
     },
     "engines": [{"name": "gosym", "path": "engine", "serves_properties": sorted(CHECKS), "kind_free_text": "bounded symbolic execution of go/ssa of the real code (own interpreter), SMT-LIB2 to z3 over a pipe; counterexamples replayed natively with go test -overlay"}],
     "checks": checks,
     "not_applicable": na,
     "notes": "Exit codes of every check: 0 = all obligations discharged within bounds (KNOWN-FINDING lines possible), 1 = VIOLATION confirmed by native replay, 2 = engine error / inconclusive (never reported as success). Fixes of genuine defects are 'fix:' commits in /repo, recorded in KNOWN_FINDINGS.json.",
    }
    json.dump(m, open("/verif/MANIFEST.json", "w"), indent=1)
    validate()

def validate():
    import jsonschema
    jsonschema.validate(json.load(open("/verif/MANIFEST.json")), json.load(open("/root/.vp/MANIFEST.schema.json")))
    es = json.load(open("/root/.vp/EVIDENCE.schema.json"))
    for f in sorted(glob.glob("/verif/evidence/*.json")):
        jsonschema.validate(json.load(open(f)), es)
        print("evidence ok:", os.path.basename(f))
    print("manifest ok")

if __name__ == "__main__":
    if len(sys.argv) > 1 and sys.argv[1] == "validate": validate()
    else: main()
