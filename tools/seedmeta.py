#!/usr/bin/env python3
"""Static descriptions of the seeded changes (merged into seeded/*/meta.json)."""
import json, os
D = {
 "C01-m1": ("machine.newTransaction sizes the signature slots by the state's participants instead of the channel's", "ForceUpdate with a state that lacks a balance column, then the low-index signatures and Enable*", "ForceUpdate with malformed states added to the operation alphabet"),
 "C01-m2": ("machine.AddSig skips verification for the machine's own index", "AddSig at the own index with a foreign/invalid signature before Sig()", ""),
 "C02-m1": ("payment app skips an asset when the actor's own balance is unchanged", "a non-actor's funds move (3 parties, or into a new sub-allocation)", "counterexample found from the start but not replayable (symbolic ID vs native random keys): gen.IDLike"),
 "C02-m2": ("machine.ValidTransition compares only participant balances when the number of sub-allocations is unchanged", "history with locked funds, candidate changing a locked amount", "as C02-m1"),
 "C05-m1": ("family lock taken only around registerDispute, decision not re-checked", "registered events for parent and sub-channel handled concurrently (second arrives while Register is pending)", "new obligation VerifC05TwoEvents + schedule point in the Register stub"),
 "C05-m2": ("publishedVersion de-duplication also applied to progressed/concluded events", "progressed/concluded event with a version not above one already relayed", ""),
 "C06-m1": ("updateGeneric's named result replaced by a local err: deferred discard misses the rejection", "propose, peer rejects, then look at the phase / propose again", "(check built after the change was produced)"),
 "C06-m2": ("version-1 update cache cleared only when no opening is running", "two overlapping openings on the responder, early update, first delivery rejected, replay accepted", "new obligation VerifC06EarlyUpdate (version-1 cache driven through export shims)"),
 "C07-m1": ("acceptUpdate registers the settlement interceptor with the current (pre-final) balances", "peer's final sub-channel update changes the balances, then a settlement crediting the old outcome", "new obligation VerifC07SubFinal (interceptor installed by the real acceptUpdate)"),
 "C07-m2": ("funding filter captures the parent state at registration time", "parent updated between proposal acceptance and the funding update", "intermediate accepted payment added to VerifC07SubFunding"),
 "C08-m1": ("transformBalances sets instead of adds", "virtual proposal with a non-injective index map whose funds exceed the parent's", ""),
 "C08-m2": ("responder enables the version-0 signature cache after publishing the accept", "proposer's signature arrives before the responder's Publish returns (one schedule)", "new obligation VerifC08Opening (two live clients) + Publish schedule point + delay-bounded exploration with runnext-like default"),
 "C09-m1": ("enableStaged switches the phase before checking signatures/final flag", "Enable* in the right phase with a missing signature or mismatching final flag", ""),
 "C09-m2": ("SetProgressing admits Withdrawing/Withdrawn (phase >= Registered)", "reach Withdrawing/Withdrawn, then SetProgressing", ""),
 "C10-m1": ("Enabled split into Staged + separate put of current", "crash between the two writes", ""),
 "C10-m2": ("nil signatures skipped instead of written empty", "stage, sign, stage again without discard/enable", ""),
 "C11-m1": ("ChannelRemoved derives the signature keys from len(peers)", "channel persisted with fewer peers than participants, then removed", ""),
 "C11-m2": ("sigKey width = number of digits of numParts", "channel with exactly 10 (100, ...) participants and one SigAdded", "VerifC10Width now persists a signature through SigAdded and removes the channel; also registered under C11"),
 "C12-m1": ("index map entries checked against the virtual channel's participant count", "funding proposal for 3 participants with index map [0,1,2]", "deviation 13 now also draws a 3-entry index map and a third balance column (this also exposed genuine defect F12c)"),
 "C12-m2": ("cleanupChannelOpening deferred after the validation early-return", "refused sub-/virtual-channel proposal naming an existing parent, then any request on the parent", ""),
 "C13-m1": ("DecodeSparseSigs loop rewritten without the sigIdx < len(sigs) bound", "padding bit set in the mask and a decodable signature still in the stream", "new obligation VerifC13SparseSigs (full payload present); engine: clear() on slices"),
 "C13-m2": ("Balances.Decode allocates rows in one go with a uint16 product", "dimensions whose product wraps at 2^16 (256 x 256)", ""),
 "C14-m1": ("AddressDecMap.Encode writes the position in the sorted key list instead of the backend id", "address map whose backend ids are not 0..n-1", "wire address maps are drawn with keys 0, 1, 6, 2^31-1"),
 "C14-m2": ("serializer.Decode wraps the reader in a bufio.Reader per call", "two envelopes in one stream with a Read returning bytes past the first", ""),
 "C15-m1": ("empty index map equals any index map (|| for &&)", "same id and balances, exactly one index map empty", ""),
 "C15-m2": ("sim backend signs without the app definition", "two states differing in the app only", ""),
 "C16-m1": ("protobuf length prefix read with a single Read", "chunk boundary between the two prefix bytes", ""),
 "C16-m2": ("bufio.Reader per Decode call (native serializer)", "chunk containing the end of one envelope and the start of the next", ""),
 "C17-m1": ("nonce length check BitLen()/8 > 32", "33-byte nonce with top byte < 0x80", "engine: BitLen of symbolic integers (was exit 2 = inconclusive, not a VIOLATION)"),
 "C17-m2": ("CalcID hashes the nonce as a right-padded fixed 32-byte word", "nonces n and n*256^k", "nonces of every length 0..K+1 in every tier"),
 "C18-m1": ("Put releases the read lock before the cache fallback", "Subscribe between fan-out and cache insertion", "schedule point inside the cache predicate; voluntary yields are not preemptions"),
 "C18-m2": ("Subscribe drains the cache before the consumer-closed check", "cached envelope, closed consumer subscribes, later a live one", "final drain of the real cache compared with the reference cache"),
 "C19-m1": ("CloneIndexMap returns an alias (append(orig[:0], orig...))", "non-empty index map, write to an entry on one side", ""),
 "C19-m2": ("Allocation.Clone deep-copies only non-empty slices", "Locked emptied by RemoveSubAlloc (spare capacity), clone, AddSubAlloc on both", "spare-capacity shapes and append-on-both-sides assertions"),
 "C20-m1": ("dispatch returns the result of whichever sub-call finished last", "a failing sub-call completes before a succeeding one", "found from the start but the native replay could not force the completion order: schedule points + recorded order"),
 "C20-m2": ("egoistic/non-egoistic partition by aliasing slices", "SetEgoisticPart with an index that is not the last ledger", ""),
}
for name, (short, needs, fixed) in D.items():
    p = f'/verif/seeded/{name}/meta.json'
    if not os.path.exists(p):
        continue
    m = json.load(open(p))
    m['short'], m['needs'], m['fixed_by'] = short, needs, fixed
    json.dump(m, open(p, 'w'), indent=1)
print('ok')
