package main

// The check registry: which harnesses discharge which property, with the
// bound parameters of each tier.

var commonAssumptions = []string{
	"bounded symbolic execution: every verdict is 'holds within the stated bounds', never 'verified'",
	"go/ssa (x/tools v0.29.0) faithfully represents the source; the interpreter's semantics of SSA instructions are validated per run by translator validation (native vs interpreted execution of the same harness on random vectors)",
	"representation assumptions of directly built values: no nil *big.Int inside balances, len(Backends)=len(Assets), App and Data non-nil (NoApp/NoData when absent)",
	"one backend (sim, id 0), one address per participant",
}

var cryptoAssumptions = []string{
	"idealised cryptography: SHA-256/SHA3 are collision-free (equal digests iff equal input streams, never the all-zero digest; concrete streams use the real SHA-256), ECDSA is existentially unforgeable and non-deterministic (crypto/ecdsa.Sign/Verify, GenerateKey and crypto/rand are replaced by the ideal scheme; the sim wallet and sim channel backend code around them is executed as is)",
}

func checkDefs() map[string]CheckDef {
	defs := map[string]CheckDef{}
	add := func(d CheckDef) { defs[d.ID] = d }

	add(CheckDef{
		ID: "C15",
		Obligations: []Obligation{
			{Pkg: "internal/verifh/c15", Harness: "VerifC15SubAlloc", Quick: map[string]int{"K": 1}, Thor: map[string]int{"K": 2}, TV: 20},
			{Pkg: "internal/verifh/c15", Harness: "VerifC15Balances", Quick: map[string]int{"K": 1}, TV: 20},
			{Pkg: "internal/verifh/c15", Harness: "VerifC15SubAllocs", Quick: map[string]int{"K": 1}, TV: 20},
			{Pkg: "internal/verifh/c15", Harness: "VerifC15AllocationPair", Quick: map[string]int{"K": 1, "exact": 1}, Thor: map[string]int{"exact": 0}, TV: 20},
			{Pkg: "internal/verifh/c15", Harness: "VerifC15StateVariant", Quick: map[string]int{"K": 1, "exact": 1}, Thor: map[string]int{"exact": 0}, TV: 20},
			{Pkg: "internal/verifh/c15", Harness: "VerifC15StateVariant", Quick: map[string]int{"K": 2, "exact": 1, "maxA": 1}, OnlyT: true},
			{Pkg: "internal/verifh/c15", Harness: "VerifC15Sig", Quick: map[string]int{"K": 1, "exact": 1}, Thor: map[string]int{"exact": 0}, TV: 10},
			{Pkg: "internal/verifh/c15", Harness: "VerifC15Asset", TV: 20},
		},
		Assumptions: append(append([]string{}, commonAssumptions...), cryptoAssumptions...),
		BoundsText:  "independent-shape pairs: SubAlloc (0..2 balances, index map 0..2), Balances (0..2 x 0..2, rectangular), []SubAlloc (0..2 entries), Allocation (1 asset, 1..2 participants, 0..1 locked, symbolic backend id); single-field variants of a State (1 asset [2 in thorough], 1..2 participants, 0..1 locked with nil/empty/full index map, NoApp or MockApp with symbolic definition and data): every field replaced by a fresh arbitrary value, plus dimension changes; signatures: 2 signers x 2 verifiers over the variant pairs. Amounts: quick K=1 (pair harnesses: all lengths 0..1 byte; state/sig harnesses: exactly 1 byte), thorough: all lengths 0..1 and exact 2 bytes. All 32 ID bytes, versions, flags, asset ids symbolic.",
		Outside:     []string{"larger dimensions", "ragged (non-rectangular) balance matrices", "amounts of more than K bytes (BigInt codec for every length 0..128 is covered by C14's unit lemma)"},
	})
	add(CheckDef{
		ID: "C17",
		Obligations: []Obligation{
			{Pkg: "internal/verifh/c17", Harness: "VerifC17Injective", Quick: map[string]int{"K": 1, "exact": 1, "extraParts": 1}, TV: 10},
			{Pkg: "internal/verifh/c17", Harness: "VerifC17Independent", Quick: map[string]int{"K": 1, "exact": 1}, TV: 10},
			{Pkg: "internal/verifh/c17", Harness: "VerifC17CloneRoundTrip", Quick: map[string]int{"K": 1, "exact": 1}, TV: 10},
			{Pkg: "internal/verifh/c17", Harness: "VerifC17Validate", TV: 10},
			{Pkg: "internal/verifh/c17", Harness: "VerifC17DecodeValidates", TV: 10, Note: "Params.Decode refuses well-formed encodings of invalid parameters (zero duration, address-less participant, one participant, 33-byte nonce) without panicking"},
			{Pkg: "internal/verifh/c17", Harness: "VerifC17StateID", Quick: map[string]int{"K": 1, "exact": 1}, TV: 5},
		},
		Assumptions: append(append([]string{}, commonAssumptions...), cryptoAssumptions...),
		BoundsText:  "parameter sets with 2 participants (3 in the variant family), sim addresses with symbolic coordinates of exactly 1 byte, nonce of every length 0..2 bytes, symbolic challenge duration (non-zero), flags, app in {none, MockApp with symbolic definition}, aux bytes 0 and 255 symbolic; pairs: every single-field variant (incl. participant swap, one participant more) and independent pairs; validation boundaries concrete: 0,1,1024,1025 participants, nonce of exactly 32 and 33 bytes, duration symbolic",
		Outside:     []string{"participants with several addresses (map iteration order)", "backends other than sim", "more than 3 participants in the injectivity obligations"},
	})
	add(CheckDef{
		ID: "C02",
		Obligations: []Obligation{
			{Pkg: "internal/verifh/c02", Harness: "VerifC02Update", TV: 20},
			{Pkg: "internal/verifh/c02", Harness: "VerifC02CheckUpdate", TV: 10},
			{Pkg: "internal/verifh/c02", Harness: "VerifC02CheckThenUpdate", TV: 10, Note: "CheckUpdate with the peer's valid signature, then Update of the (possibly edited) candidate: no verdict carries over between calls"},
			{Pkg: "internal/verifh/c02", Harness: "VerifC02Init", TV: 20},
			{Pkg: "internal/verifh/c02", Harness: "VerifC02Limits", TV: 6},
		},
		Assumptions: append(append([]string{}, commonAssumptions...),
			"the current state ranges over all well-formed states of the channel (an over-approximation of the states reachable by accepted updates; closure under accepted updates is asserted)",
			"payment app: candidate and initial data is NoData (the app documents a panic for other data, tested by the repository's TestApp_ValidTransition/panic)",
			"reference predicate refSuccessor/refInit: DESIGN.md Appendix A.1 (per-asset backend ids are not part of it)"),
		BoundsText: "channel with 2 participants, app in {NoApp, payment, MockApp(OpValid)}; current state: 1..2 assets, 0..1 sub-allocations, unbounded non-negative amounts, symbolic version/final flag/asset ids; candidate: 13 shape variants relative to the current state (same; one asset more/less; rows != assets; participant columns 0, N-1, N+1; ragged last row shorter/longer; one sub-allocation more/less; sub-allocation with one balance too many), every leaf symbolic: all 32 ID bytes, version, final flag, app definition (same kind) or another app kind, asset ids, amounts unbounded integers of either sign, actor any uint16; limits at exactly 1024/1025 assets, participants and sub-allocations",
		Outside:    []string{"ActionMachine", "more than 2 participants / 2 assets in the current state", "apps other than the three named"},
	})
	machAssume := append(append(append([]string{}, commonAssumptions...), cryptoAssumptions...),
		"representation invariant I of the machine (DESIGN.md §3 C01): current transaction absent exactly in the two initial phases; if present, all its signatures verify or all slots are nil; in signing phases a staged state with N slots exists; every filled staging slot verifies for the staged state. The C01 step obligation shows I is inductive over the complete operation alphabet, the base obligation shows it for fresh machines, and the BMC obligation shows it on states reached through the real API",
		"signature indices below the participant count (larger ones are documented to panic); the unchecked ForceUpdate and Update/CheckUpdate are applied only to machines with a current state; SetProgressed/SetProgressing carry a non-nil state")
	add(CheckDef{
		ID: "C09",
		Obligations: []Obligation{
			{Pkg: "internal/verifh/c09", Harness: "VerifC09Step", Quick: map[string]int{"sigKinds": 5, "symPhase": 1}, Thor: map[string]int{"sigKinds": 7, "symPhase": 0}, TV: 30},
		},
		Assumptions: append(machAssume, "reference automaton: DESIGN.md Appendix A.2; 'signature valid' in the reference is the backend's Verify on (participant address, staged state, signature), whose meaning is established by C15"),
		BoundsText:  "2 participants, own index 0 and 1; pre-state: any of the 12 phases (symbolic in quick, enumerated in thorough), current transaction {absent, fully signed, adopted}, staging {absent, present with any subset of valid signature slots}; states: 1 asset, amounts of exactly 1 byte, symbolic version/final flag/asset id; one operation of the complete alphabet (17 operations) with symbolic arguments: candidate state with symbolic ID/version/final/amounts, any uint16 actor, signature index 0..1, signature kind in {valid, replay over another state, by the other participant, by a stranger, 64 zero bytes} (+ {wrong length, nil} in thorough)",
		Outside:     []string{"ActionMachine", "more than 2 participants", "sequences of operations (covered as one inductive step from an arbitrary invariant-satisfying state, and by C01's BMC obligation)"},
	})
	add(CheckDef{
		ID: "C01",
		Obligations: []Obligation{
			{Pkg: "internal/verifh/c01", Harness: "VerifC01Base", TV: 5},
			{Pkg: "internal/verifh/c01", Harness: "VerifC01Step", Quick: map[string]int{"sigKinds": 5, "symPhase": 1}, Thor: map[string]int{"sigKinds": 7, "symPhase": 0}, TV: 30},
			{Pkg: "internal/verifh/c01", Harness: "VerifC01BMC", Quick: map[string]int{"sigKinds": 3, "k": 1, "symPhase": 0}, TV: 20},
		},
		Assumptions: machAssume,
		BoundsText:  "as C09 for the inductive step (one arbitrary operation from an arbitrary invariant-satisfying machine: unbounded history); BMC: 9 milestone states reached through the real API (fresh, initialised, own-signed, fully signed init, funding, acting, update staged, peer-signed, fully signed update) followed by every single arbitrary operation (k=1), re-verifying the current transaction with channel.Verify after every step",
		Outside:     []string{"ActionMachine", "more than 2 participants (3 only in the base obligation)", "participants whose address map is empty"},
	})
	pbAssume := "google.golang.org/protobuf proto.Marshal/Unmarshal and the generated registration code are outside the claim: they are modelled by their contract Unmarshal(Marshal(m)) = m (opaque handles); the From*/To* conversions, the serializer's type switches and the length-prefixed framing are executed as they are"
	add(CheckDef{
		ID: "C14",
		Obligations: []Obligation{
			{Pkg: "internal/verifh/c14", Harness: "VerifC14BigInt", Quick: map[string]int{"maxLen": 129}, TV: 30},
			{Pkg: "internal/verifh/c14", Harness: "VerifC14BigIntPair", Quick: map[string]int{"K": 2}, Thor: map[string]int{"K": 3}, TV: 20},
			{Pkg: "internal/verifh/c14", Harness: "VerifC14Values", Quick: map[string]int{"K": 1, "exact": 1, "maxS": 1, "maxA": 1}, Thor: map[string]int{"exact": 0, "maxS": 2, "maxA": 1, "wireKeys": 2}, TV: 30},
			{Pkg: "internal/verifh/c14", Harness: "VerifC14Messages", Quick: map[string]int{"K": 1, "exact": 1, "maxS": 1}, Thor: map[string]int{"maxS": 2, "wireKeys": 2}, TV: 40},
			{Pkg: "internal/verifh/c14", Harness: "VerifC14Envelopes", Quick: map[string]int{"K": 1, "exact": 1, "envKinds": 3}, Thor: map[string]int{"envKinds": 4}, TV: 15},
			{Pkg: "internal/verifh/c14", Harness: "VerifC14Protobuf", Quick: map[string]int{"K": 1, "exact": 1, "maxS": 1}, Thor: map[string]int{"maxS": 2, "wireKeys": 2}, TV: 40},
		},
		Assumptions: append(append([]string{}, commonAssumptions...), pbAssume,
			"reason strings are ASCII (protobuf refuses text fields that are not valid UTF-8; found by translator validation against the real protobuf library)",
			"time.Time (ping/pong) is modelled as its UnixNano value; wall-clock/monotonic/location parts are outside",
			"apps carried in states/parameters are registered with the app registry before decoding (as a running client does)"),
		BoundsText: "BigInt codec: every byte length 0..129 (limit 128 exact), symbolic content; pairs of big integers up to K bytes each; value types: Balances (0..2 x 1..2), SubAlloc (0..2 balances; index map nil/0..2), Allocation/State (1 asset [2 thorough], 1..2 participants, 0..1 sub-allocations [2 thorough] with nil/empty/full index map, NoApp or MockApp with symbolic definition and data), Params (2..3 participants, symbolic addresses/nonce/duration/flags/aux bytes), Transaction (absent state or any subset of 64-byte signatures), wallet and wire address map arrays (0..2 entries); all 17 message types through wire.EncodeMsg/DecodeMsg with 3 arbitrary trailing bytes, strings of 0..2 bytes, AuthResponse signatures 0..3 bytes; two envelopes back to back through the perunio envelope serializer; all 17 message types through the protobuf envelope serializer, compared field by field and re-encoded natively. Amounts exactly 1 byte in quick, 0..1 bytes in thorough (every length is covered by the BigInt obligations).",
		Outside:    []string{"proto.Marshal/Unmarshal", "larger dimensions", "participants with several addresses per map"},
	})
	add(CheckDef{
		ID: "C13",
		Obligations: []Obligation{
			{Pkg: "internal/verifh/c13", Harness: "VerifC13Buffer", Quick: map[string]int{"L": 6, "symLenK": 9}, Thor: map[string]int{"L": 7}, TV: 15},
			{Pkg: "internal/verifh/c13", Harness: "VerifC13Window", Quick: map[string]int{"W": 4, "stride": 4, "symLenK": 9}, Thor: map[string]int{"stride": 2}, TV: 15},
			{Pkg: "internal/verifh/c13", Harness: "VerifC13PB", Quick: map[string]int{"maxSites": 70}, TV: 60},
			{Pkg: "internal/verifh/c13", Harness: "VerifC13Zeros", Quick: map[string]int{"maxLen": 14}, TV: 15, Note: "every decoder on buffers of length 0..maxLen that are zero except 3 arbitrary bytes at an arbitrary offset"},
			{Pkg: "internal/verifh/c13", Harness: "VerifC13BigIntLong", TV: 10, Note: "big integer decoder with declared lengths 0,1,127..130,200,255 and the payload present: lengths above the limit are refused whatever the value"},
			{Pkg: "internal/verifh/c13", Harness: "VerifC13DimsLong", TV: 8, Note: "Balances and SubAlloc decoders with one declared dimension at its limit or one above (1 x 1024/1025, 1024/1025 x 1, 0 x 1025, 1025 x 0; 1024/1025 sub-allocation balances) and every declared element present in the stream: success exactly within the limits"},
			{Pkg: "internal/verifh/c13", Harness: "VerifC13SparseSigs", Quick: map[string]int{"maxSlots": 9}, TV: 15, Note: "sparse signature decoder with the full payload present (0..9 slots, arbitrary mask incl. padding bits)"},
		},
		Assumptions: append(append([]string{}, commonAssumptions...), pbAssume,
			"allocation bound: a decoder may pass at most 65536 to make before it has read the elements (the largest count a 16-bit length field can declare); natively the bound is confirmed through the bytes allocated by the decoder",
			"window model: templates are concrete valid encodings (1 asset, 2 participants, 1 sub-allocation with index map, MockApp registered); the window content and an optional truncation point are arbitrary",
			"protobuf model: well-formed generated structs with exactly one deviation (a nil sub-message, a repeated field with one element more or less, a byte field that is absent, one byte long or one byte too long, an arbitrary backend key, an arbitrary app definition); leaves are concrete except at the deviation"),
		BoundsText: "buffer model: each of 20 decoder entry points (perunio BigInt/string/scalars, Balances, SubAlloc, Allocation, State, Params, Transaction, wallet and wire address maps and arrays, Sig, SparseSigs for 0..3 slots, OptApp, OptAppAndData, wire.DecodeMsg, perunio envelope serializer) on a fully symbolic buffer of every length 0..L (L=6; 7 thorough); declared counts are read back from the buffer and compared with the documented limits on success; window model: W=4 arbitrary bytes at every 4-aligned offset (every 2-aligned offset thorough) of a valid encoding, optionally truncated inside or right after the window (State, Params, Envelope, AuthResponse, LedgerChannelProposalAcc, ChannelUpdateAcc; bound allTemplates=1 adds the 12 other templates incl. all composite messages - not part of the registered tiers); protobuf: 8 message kinds x up to 70 deviation sites through the real serializer.Decode; dimension limits: Balances and SubAlloc with one dimension at its limit or one above and the whole payload present",
		Outside:    []string{"proto.Unmarshal itself", "two simultaneous deviations in one protobuf message", "windows wider than 4 bytes", "memory exhaustion below the allocation bound"},
	})
	add(CheckDef{
		ID: "C16",
		Obligations: []Obligation{
			{Pkg: "internal/verifh/c16", Harness: "VerifC16Primitives", Quick: map[string]int{"payload": 6}, Thor: map[string]int{"payload": 8}, TV: 40},
			{Pkg: "internal/verifh/c16", Harness: "VerifC16Long", TV: 10, Note: "byte slice / string of 101, 130, 255 bytes and a 40-byte big integer through uniform chunks of 1, 2, 3 bytes (hundreds of reads per field)"},
			{Pkg: "internal/verifh/c16", Harness: "VerifC16Native", Quick: map[string]int{"envKinds": 2}, Thor: map[string]int{"envKinds": 3}, TV: 20},
			{Pkg: "internal/verifh/c16", Harness: "VerifC16Protobuf", Quick: map[string]int{"envKinds": 2, "firstFrame": 12}, Thor: map[string]int{"envKinds": 3}, Note: "no translator validation: the modelled proto.Marshal output (8-byte handle) has a different length than the real one, so native and modelled chunk choices are not comparable; counterexamples are still replayed natively"},
		},
		Assumptions: append(append([]string{}, commonAssumptions...), pbAssume,
			"open stream: the reader never reports end-of-file and returns 1..min(len(p), remaining) bytes per Read; a Read on an exhausted stream (which would block on a connection) is asserted not to happen",
			"composition: every read the serializers perform goes through one of the primitive read sites, each of which is checked for all partitions; whole envelopes are checked for a bounded family of chunkings"),
		BoundsText: "primitive read sites (fixed-size scalars via binary.Read, uint64, [32]byte via io.ReadFull, string, ByteSlice, BigInt): symbolic content, payload up to 6 bytes (8 thorough), every partition of the encoding into chunks (all 2^(n-1)), two following bytes must stay unread; perunio envelope serializer: two consecutive envelopes (Ping, ChannelUpdateAcc [, ChannelProposalRej]) under: all at once, uniform chunks of 1..8 bytes, one cut at every position, two cuts at every position with distance 1..3; protobuf serializer: the same family plus every partition of the first frame and the second frame's length prefix",
		Outside:    []string{"envelopes longer than a network segment are the same code path but are not executed at that size", "proto.Marshal/Unmarshal", "readers that return 0 bytes without error"},
	})
	add(CheckDef{
		ID: "C19",
		Obligations: []Obligation{
			{Pkg: "internal/verifh/c19", Harness: "VerifC19Values", Quick: map[string]int{"K": 1, "exact": 1, "maxA": 1, "maxS": 1}, Thor: map[string]int{"maxA": 2, "maxS": 2}, TV: 40},
			{Pkg: "internal/verifh/c19", Harness: "VerifC19Params", Quick: map[string]int{"K": 1, "exact": 1}, TV: 20},
			{Pkg: "internal/verifh/c19", Harness: "VerifC19Machines", Quick: map[string]int{"K": 1, "exact": 1}, TV: 30},
			{Pkg: "internal/verifh/c19", Harness: "VerifC19History", Quick: map[string]int{"K": 1, "exact": 1}, TV: 10, Note: "machine with a transaction history (one real update cycle): the history of the clone is separate memory too (read through an overlay-only accessor)"},
		},
		Assumptions: append(append([]string{}, commonAssumptions...), cryptoAssumptions[0],
			"sharing is detected by mutating one side through every mutable location reachable from it (in-place big.Int addition of a non-zero delta, slot replacement, index-map entries, ID and signature bytes, app data in place, nonce, address coordinates, address map entries) and comparing the other side with an independent deep snapshot taken before",
			"allowed sharing (as documented): app definitions, asset identifiers, signing accounts, loggers; FromSource stores the peers slice and parent pointer it is given (not part of the property's list)"),
		BoundsText: "Allocation/State/Transaction: 1 asset (2 thorough), 1..2 participants, locked nil/empty/1 sub-allocation (2 thorough) with nil/empty/full index map, NoApp or MockApp with data, signatures nil/all-nil/any subset; Balances 0..2 x 0..2 and nil; CloneSigs; Params with 2..3 participants; machines (StateMachine, ActionMachine, CloneSource, FromSource) in any phase with staging/current transactions absent or present (with locked funds and partial signatures); the mutation is applied to the original or to the clone (both directions)",
		Outside:    []string{"larger dimensions", "backends other than sim"},
	})
	persistAssume := append(append([]string{}, machAssume...),
		"store: the real keyvalue.PersistRestorer over the real polycry.pt/poly-go sortedkv tables and memorydb; crash granularity = store write events (a single Put/Delete outside a batch, or one Batch.Apply; batches are atomic per the store's contract)",
		"channel IDs and store keys are concrete (parameters are concrete, hashed with the real SHA-256); state leaves are symbolic",
		"an empty staging transaction (no state, no signature) is the same whatever its number of empty signature slots")
	add(CheckDef{
		ID: "C10",
		Obligations: []Obligation{
			{Pkg: "internal/verifh/c10", Harness: "VerifC10Step", Quick: map[string]int{"sigKinds": 2, "curKinds": 1, "parents": 1, "owns": 1}, Thor: map[string]int{"sigKinds": 3, "curKinds": 2}, TV: 30},
			{Pkg: "internal/verifh/c10", Harness: "VerifC10Width", TV: 10},
		},
		Assumptions: persistAssume,
		BoundsText:  "one inductive step: arbitrary invariant-satisfying machine (any phase, current transaction absent/fully signed [/adopted in thorough], staging absent or present with any subset of signature slots) whose store is the full dump written by ChannelCreated (the step re-establishes 'store = dump of the machine' key for key and byte for byte, so one step covers histories of any length); one operation of the complete alphabet of the persisting machine (17 operations, symbolic arguments) with the crash point before write event 0, 1 or never; restore with RestoreChannel and rebuild with RestoreStateMachine; 2 participants; without parent (the parent key is exercised by C11); signature-key width: channels of 3, 10 and 11 participants with signatures in any two slots",
		Outside:     []string{"LevelDB (file I/O, goroutines, compaction cannot be encoded)", "crashes inside a batch", "more than 2 participants in the step obligation"},
	})
	add(CheckDef{
		ID: "C11",
		Obligations: []Obligation{
			{Pkg: "internal/verifh/c11", Harness: "VerifC11History", Quick: map[string]int{"h": 4}, Thor: map[string]int{"h": 5}, TV: 20},
			{Pkg: "internal/verifh/c10", Harness: "VerifC10Width", TV: 10, Note: "channels of 3, 10 and 11 participants: created, one signature persisted on its own, restored, removed; nothing may stay in the store"},
		},
		Assumptions: persistAssume,
		BoundsText:  "three channels of one client with peer lists {P}, {P,Q}, {Q}, the third a child of the first; all histories of h steps (h=4 quick, 5 thorough) over {create (real API up to Acting), advance (full update, or stopped after the own signature), remove} x channel; after every step: RestoreAll, RestorePeer(P), RestorePeer(Q), ActivePeers, RestoreChannel for all three and the raw key set are compared with the reference set of live channels; restored data is compared leaf by leaf with the live machines",
		Outside:     []string{"LevelDB", "more than three channels / two peers", "channel IDs whose relative order differs from the three concrete ones"},
	})
	add(CheckDef{
		ID: "C20",
		Obligations: []Obligation{
			{Pkg: "internal/verifh/c20", Harness: "VerifC20LedgerIDs", Quick: map[string]int{"maxAssets": 4}, TV: 20},
			{Pkg: "internal/verifh/c20", Harness: "VerifC20Dispatch", Sched: true, Quick: map[string]int{"P": 0, "ledgers": 3, "maxAssets": 3, "plainAsset": 1}, Thor: map[string]int{"maxAssets": 4}, TV: 30},
		},
		Assumptions: append(append([]string{}, commonAssumptions...),
			"goroutines are run by the engine's cooperative scheduler: every order in which the concurrent sub-calls start, complete and deliver their result is explored (preemption bound P=0: a goroutine is switched away from only when it blocks or ends; the stubs take a mutex at entry and exit, so entry/exit interleavings are explored)",
			"context.WithTimeout is the plain-Go context model of the harness runtime on the engine's virtual clock; the funder's timeout never fires before the calls return",
			"reference: DESIGN.md Appendix A.7"),
		BoundsText: "asset lists of length 0..3 (4 thorough) over 3 ledgers given as (backend, ledger) pairs, repetitions in any order, optionally a non-multi-ledger asset; every subset of registered ledgers and of failing ledgers; methods Register, Progress, Withdraw, Fund (with every egoistic index 0..3 or none); all completion orders",
		Outside:    []string{"preemptions inside a stub call (P>0)", "more than 3 ledgers", "funder timeouts"},
	})
	add(CheckDef{
		ID: "C18",
		Obligations: []Obligation{
			{Pkg: "internal/verifh/c18", Harness: "VerifC18Sequential", Sched: true, Quick: map[string]int{"P": 0, "h": 4}, Thor: map[string]int{"h": 5}, TV: 30},
			{Pkg: "internal/verifh/c18", Harness: "VerifC18Concurrent", Sched: true, Quick: map[string]int{"P": 0, "T": 2, "k": 2, "race": 1}, TV: 30},
		},
		Assumptions: append(append([]string{}, commonAssumptions...),
			"predicates are harness closures whose verdict on each envelope is a symbolic boolean; consumers are recording stubs with OnClose support (poly-go Closer)",
			"reference model: DESIGN.md Appendix A.6; a consumer that was closed but whose asynchronous removal may still be pending may or may not receive an envelope put in that window (both allowed); each envelope is put at most once per program; duplicate subscriptions (a documented panic) are not drawn",
			"concurrency: the engine's cooperative scheduler explores every order of the operations and of the relay's own goroutines at blocking points (preemption bound 0); in addition every explored execution is checked for data races with a vector-clock happens-before detector (goroutine creation, sync.Mutex/RWMutex, channels, WaitGroup, Once, atomics, timers); a race is reported as a violation and confirmed natively by `go test -race`"),
		BoundsText: "one relay, 2 consumers, 2 cache predicates, 3 envelopes, all predicate verdicts symbolic (12 booleans); sequential: all histories of h operations (h=4 quick, 5 thorough) over {put, subscribe, cache, release-cache, close-consumer} with quiescence after each; concurrent: T=2 goroutines with k=2 operations each, all operation-level interleavings, deliveries compared with the reference at quiescence, happens-before race detection on every execution",
		Outside:    []string{"wire.Receiver's buffering", "preemption inside an operation beyond what the race detector reports (P>0)", "more than 3 goroutines"},
	})
	add(CheckDef{
		ID: "C05",
		Obligations: []Obligation{
			{Pkg: "internal/verifh/c05", Harness: "VerifC05History", Quick: map[string]int{"h": 4}, Thor: map[string]int{"h": 5}, TV: 30, Note: "deterministic run-to-block schedule, longer histories"},
			{Pkg: "internal/verifh/c05", Harness: "VerifC05History", Sched: true, Quick: map[string]int{"h": 3, "P": 0, "race": 1}, Thor: map[string]int{"h": 4}, Note: "all wake-up orders at blocking points, happens-before race detection"},
			{Pkg: "internal/verifh/c05", Harness: "VerifC05TwoEvents", Sched: true, Quick: map[string]int{"P": 0, "race": 1}, TV: 6, Note: "registered events for both channels of a family handled concurrently (the Register stub is a schedule point): outcome must equal one of the two sequential orders"},
		},
		Assumptions: append(append([]string{}, commonAssumptions...),
			"the RegisterSubscriber is a harness stub: Subscribe returns a subscription fed by the harness, Register records its arguments and succeeds",
			"the real watcher goroutines run under the engine's cooperative scheduler; the 1 ms statesFromClientWaitTime timer and all other timers fire on the virtual clock only when no goroutine can run; after every step the harness waits for quiescence",
			"single-ledger channels; a sub-channel is locked in the parent's newest state only if the watcher knows it (watched, or archived while locked)",
			"reference: DESIGN.md Appendix A.5 (event version below the own registered version: unconstrained)"),
		BoundsText: "one ledger channel and one sub-channel; symbolic versions (< 2^60) of initial states, of every published transaction (strictly increasing per channel by a symbolic step) and of every adjudicator event; symbolic locked flag per parent publication; the registration triggered by an event may fail (then nothing counts as registered and the next stale event must be refuted again); histories of h steps over {publish parent, publish sub, event for parent, event for sub (registered/progressed/concluded), start sub, stop sub, stop parent (refused while the sub-channel is watched)}; h=4 (5 thorough) under the deterministic schedule, h=3 (4 thorough) under all wake-up orders at blocking points with race detection; two-events obligation: both channels watched with newer published transactions, one registered event each with symbolic versions delivered back to back, every schedule of the two handlers at blocking points and at the Register call",
		Outside:    []string{"multi-ledger forcing rule", "more than one sub-channel", "preemptions inside the handlers (P>0)"},
	})
	clientAssume := append(append([]string{}, commonAssumptions...), cryptoAssumptions[0],
		"client world: a real client.Client (registry, channel objects, machine mutexes, update interceptors, state watchers) wired to harness stubs for bus (records published envelopes), funder, adjudicator and watcher; handlers are entered through overlay-only export shims (client/zz_verif_export.go) exactly as Client.Handle dispatches them (one goroutine per message)",
		"channels are adopted in an arbitrary state through the real channelFromSource path (as Restore does); the honest client's account is a sim wallet account; the adversary holds the peer's (and a stranger's) valid keys",
		"context deadlines and timers are the harness runtime's plain-Go models on the engine's virtual clock; timers fire only when no goroutine can run (a 10 s protocol timeout is 'eventually, after everything else')",
		"logging (logrus) is modelled as no-op; log.Panic* still panics")
	add(CheckDef{
		ID: "C08",
		Obligations: []Obligation{
			{Pkg: "internal/verifh/c08", Harness: "VerifC08Validation", TV: 10},
			{Pkg: "internal/verifh/c08", Harness: "VerifC08Agreement", Quick: map[string]int{"c08full": 0}, Thor: map[string]int{"c08full": 1}, TV: 6},
			{Pkg: "internal/verifh/c08", Harness: "VerifC08ProposalDuringUpdate", TV: 6, Note: "sub-channel / virtual channel proposal arriving while an update of the parent is in flight: judged against the parent state after the update"},
			{Pkg: "internal/verifh/c08", Harness: "VerifC08Opening", TV: 6, Note: "the whole two-party opening protocol between two real clients, deterministic schedule"},
			{Pkg: "internal/verifh/c08", Harness: "VerifC08Opening", Sched: true, Quick: map[string]int{"P": 0, "D": 1, "race": 1}, Note: "delay-bounded schedule exploration (every Publish is a schedule point), happens-before race detection"},
		},
		Assumptions: append(append([]string{}, clientAssume...),
			"reference validity predicate: DESIGN.md Appendix A.4",
			"SHA3-256 (nonce derivation) and SHA-256 (channel ID) are ideal: equal digests iff equal input streams",
			"quick tier: nonce digests without a leading zero byte in the two ID-dependence experiments (the thorough tier explores every digest length 0..32)"),
		BoundsText: "validation: a client with or without an open ledger channel to the sender (symbolic balances, optionally locked funds); ledger, sub-channel and virtual channel proposals built well-formed with symbolic leaves and exactly one of 24 deviations (participants, challenge duration, allocation shape/validity/locked, funding agreement, peers vs sender/receiver, parent id, assets, funds vs parent, parents list and index maps of every wrong length, entries out of range); the proposal handler must be invoked only for proposals the reference accepts, never panic, and leave the parent's mutex free; agreement: completeCPP's parameter derivation on both sides' clients for ledger and virtual proposals with symbolic nonce shares, proposal IDs and challenge durations; the ID changes iff the proposer's / the responder's share changes; accept messages of the wrong type or proposal ID are refused; opening: two real clients on an in-harness bus run ProposeChannel / Accept (or Reject) for a ledger channel with symbolic balances, nonce shares and challenge duration: both obtain channels with the same ID, parameters, participant order and the proposed version-0 state fully signed, in phase Acting; explored under the deterministic schedule and under every schedule with up to D=1 deviation from the Go-like default (runnext) at blocking points and at every Publish",
		Outside:    []string{"schedules beyond the delay bound", "message loss on the bus", "sub-channel and virtual channel openings between live clients (their validation and derivation steps are covered)", "more than two participants", "apps other than NoApp in proposals"},
	})
	add(CheckDef{
		ID: "C07",
		Obligations: []Obligation{
			{Pkg: "internal/verifh/c07", Harness: "VerifC07Update", Quick: map[string]int{"maxLocked": 1, "phases": 2}, TV: 10},
			{Pkg: "internal/verifh/c07", Harness: "VerifC07SubFunding", TV: 10},
			{Pkg: "internal/verifh/c07", Harness: "VerifC07SubSettlement", TV: 10},
			{Pkg: "internal/verifh/c07", Harness: "VerifC07SubFinal", TV: 6, Note: "settlement interceptor installed by the real acceptUpdate of the peer's final sub-channel update"},
			{Pkg: "internal/verifh/c12", Harness: "VerifVirtualFunding", Quick: map[string]int{"devmask": 6951}, TV: 1, Note: "quick: deviations 0,1,2,5,8,9,11,12 (the others run in C12's quick tier)"},
			{Pkg: "internal/verifh/c12", Harness: "VerifVirtualSettlement", Quick: map[string]int{"bKinds": 2, "devmask": 435}, TV: 1, Note: "quick: deviations 0,1,4,5,7,8"},
		},
		Assumptions: append(append([]string{}, clientAssume...),
			"the independent acceptability predicates are written from the property text in the harness (c07.go acceptable/successor, sub.go, c12/virtual.go fundingRef/settlementRef); the wire-level sender is not part of them (the property identifies the sender by the signature)",
			"the user's update handler accepts or rejects nondeterministically; 'countersigned' is observed as a ChannelUpdateAcc on the bus carrying the client's signature"),
		BoundsText: "ordinary updates: channel in phase Acting/Final  with symbolic balances, version and 0..1 (2) locked sub-allocations with empty/[0,1]/[1,0] index maps; candidate = arbitrary balances + one of 12 structural deviations (version, id, final flag, locked amount / index map / identity edited, sub-allocation removed / added / reordered, other asset, balance column more/fewer); signature = peer over candidate / over a state differing in one balance / over the current state / stranger over candidate / garbage; actor index arbitrary 16 bit; sub-channel funding and settlement interceptors: registered as completeCPP / acceptUpdate do (funding optionally after an intermediate accepted payment on the parent; settlement also through the real acceptUpdate of the peer's final sub-channel update with an arbitrary outcome), candidate with arbitrary debits/credits and 7 / 6 deviations of the locked list; virtual channel funding (14 deviations) and settlement (11 deviations) proposals sent by one party with the other party's matching, different or missing proposal, both arrival orders",
		Outside:    []string{"apps with their own transition rules (covered at machine level by C02)", "more than two participants / one asset", "preemptive schedules inside the handlers"},
	})
	add(CheckDef{
		ID: "C12",
		Obligations: []Obligation{
			{Pkg: "internal/verifh/c12", Harness: "VerifC12Sync", Quick: map[string]int{"phases": 2}, TV: 1, Note: "few native validation runs: with an unreachable sender every native run waits out the real 10 s reply timeout"},
			{Pkg: "internal/verifh/c12", Harness: "VerifC12Update", Quick: map[string]int{"phases": 2}, TV: 10},
			{Pkg: "internal/verifh/c08", Harness: "VerifC08Validation", TV: 6, Note: "proposal messages: no panic, parent channel not left locked"},
			{Pkg: "internal/verifh/c12", Harness: "VerifVirtualFunding", Quick: map[string]int{"devmask": 9437}, TV: 1, Note: "quick: deviations 0,2,3,4,6,7,10,13 (the others run in C07's quick tier)"},
			{Pkg: "internal/verifh/c12", Harness: "VerifVirtualSettlement", Quick: map[string]int{"bKinds": 2, "devmask": 3661}, TV: 1, Note: "quick: deviations 0,2,3,6,9,10,11"},
		},
		Assumptions: append(append([]string{}, clientAssume...),
			"'decodes successfully' is modelled by building message values directly within what the decoders can deliver (C13/C14 cover the decoders): states that fail State.Valid are only sent with garbage signatures; parameters have at least two participants; no nil sub-messages",
			"'still completes or refuses honest requests in bounded time' is checked as: after all handler goroutines are quiescent (all virtual-time timeouts fired) every channel's machine mutex is free, at most one response per request was sent, no goroutine of the client is blocked forever on the responder's done channel, and the phase is one an honest request can proceed from",
			"an unrecovered panic in any goroutine is a violation (natively: the test binary dies with 'panic:')"),
		BoundsText: "sync messages (4 shapes incl. the decodable empty transaction), update messages (9 deviations x 4 signature kinds x arbitrary actor index, from the peer or a stranger), all proposal kinds with 24 deviations (shared with C08), virtual channel funding (14 deviations) and settlement (11 deviations) proposals incl. more/fewer signatures than participants, index maps of wrong length or with entries out of range, unallocated or already allocated channels, with/without the second party's proposal in both arrival orders and with timeouts; channel in phases Acting/Signing ",
		Outside:    []string{"sequences of more than two adversarial messages per run (each handler is checked from an arbitrary channel state instead)", "proposal responses and update responses arriving outside a protocol run (they are consumed by wire receivers created per request; not encoded)", "preemptive schedules inside the handlers"},
	})
	add(CheckDef{
		ID: "C06",
		Obligations: []Obligation{
			{Pkg: "internal/verifh/c06", Harness: "VerifC06Sequential", Quick: map[string]int{"n": 2}, Thor: map[string]int{"n": 3}, TV: 6},
			{Pkg: "internal/verifh/c06", Harness: "VerifC06TwoChannels", Quick: map[string]int{"n": 2}, TV: 6, Note: "sequential proposals by either party on either of two channels of the pair (possibly at the same version); the responder's own context may end while its accept message is on the way"},
			{Pkg: "internal/verifh/c06", Harness: "VerifC06Concurrent", TV: 6, Note: "deterministic run-to-block schedule"},
			{Pkg: "internal/verifh/c06", Harness: "VerifC06EarlyUpdate", TV: 6, Note: "first update arriving while 1..2 openings are running on the responder (version-1 cache): handled exactly once"},
			{Pkg: "internal/verifh/c06", Harness: "VerifC06Concurrent", Sched: true, Quick: map[string]int{"P": 0, "D": 1, "race": 1}, Note: "delay-bounded schedule exploration: every schedule that deviates from the default choice at up to D scheduling decisions (blocking points), happens-before race detection"},
		},
		Assumptions: append(append([]string{}, clientAssume...),
			"two real clients (request loops Client.Handle, relays, receivers, channel connections, machines) on one in-harness bus that hands an envelope synchronously to the recipient's relay (per-connection order preserved, no loss)",
			"both clients hold the same channel(s) in phase Acting with an arbitrary fully signed current state; updates are payments of a symbolic amount from the proposer; the responder's handler accepts or rejects by a symbolic decision",
			"timeouts (5 s proposer, 2 s responder) fire on the virtual clock only when nothing else can run; runs with a timed-out request are only checked for the fully-signed invariant, as the property states",
			"'at every moment' is checked at quiescence (after each protocol run) and not between individual machine steps"),
		BoundsText: "sequential: programs of n proposals (n=2 quick, 3 thorough), each by either party, each accepted or rejected; after every run both parties hold the reference state (proposed state on success, unchanged on rejection), fully signed, phase Acting, machine mutex free; success iff the peer's handler accepted, refusal is a PeerRejectedError; two channels: n=2 sequential proposals by either party on either of two channels whose versions may coincide, optionally with the responder's context cancelled while its accept is being published - same assertions for both channels; concurrent: both parties propose at the same time on one channel or on two channels of the same pair; without timeouts both hold the same state whose version is initial + number of successes and equals the last successful proposal; always: current transactions fully signed; early update: a version-1 update received while 1..2 channel openings are running is cached, handed to the handler exactly once when an opening finishes, answered once, and a rejected one is never accepted later",
		Outside:    []string{"message loss and reordering on the bus", "more than two concurrent proposals", "the state between individual steps of a protocol run (only quiescent points are compared)", "schedules beyond the delay bound"},
	})
	return defs
}
