package main

// A Run is one execution of a harness along one path. Paths are explored by
// re-execution: a path is the list of decisions taken; within the given prefix
// decisions are replayed without consulting the solver.

import (
	"fmt"
	"os"
	"runtime"
	"go/types"
	"math/big"
	"sort"
	"strings"
	"sync"

	"golang.org/x/tools/go/ssa"
)

var (
	forkMu    sync.Mutex
	forkSites = map[string]int{}
)

var debugDecisions = os.Getenv("VERIF_DEBUG_DECISIONS") != ""

// control-flow panics used inside the engine
type engineError struct{ msg string }

func engineErr(f string, a ...interface{}) engineError {
	return engineError{fmt.Sprintf(f, a...)}
}

type pathEnd struct{ why string } // path stops silently (infeasible / assumption false)

// goPanic is a Go-level panic raised by the interpreted program.
type goPanic struct {
	kind string // nil-deref, index, slice, makeslice, divide, assert, explicit, nil-map, close, exit, ...
	msg  string
	val  Value // for explicit panics
}

type NondetRec struct {
	Kind string // u8,u16,u32,u64,bool,nat,choice
	Term *Term  // nil for choice
	Conc int64  // choice result
	N    int64  // choice arity
}

type knownRec struct {
	id   string
	cond *Term
}

type Violation struct {
	Label    string
	Kind     string // assert | panic | deadlock
	Detail   string
	Vector   []VecEntry
	Decision []int64
	Known    string // id of the known finding that covers it, if any
	Sched    []string // order in which rt.SchedPoint tags were passed
	Stack    string
}

type VecEntry struct {
	K string `json:"k"`
	V string `json:"v"`
}

type ObsRec struct {
	Label string
	Vals  []string
}

type PathResult struct {
	Prefix       []int64
	NewPrefixes  [][]int64
	Violations   []Violation
	Reached      map[string][]VecEntry // reach label -> witness vector
	AssertsOK    map[string]int        // label -> number of discharged (unsat) checks on this path
	Inconclusive string                // non-empty: reason
	Outcome      string                // normal | panic:<msg> | assume-false | infeasible
	Steps        int
	Observes     []ObsRec
	Funcs        map[string]bool
	Intrinsics   map[string]bool
	Decisions    []int64
	Sample       string
	SchedChoices int
	TimersFired  int
	Races        []string
	SelectChoices int
}

type Run struct {
	eng    *Engine
	ctx    *Ctx
	solver *Solver

	prefix      []int64
	pos         int
	decisions   []int64
	newPrefixes [][]int64

	pc      []*Term
	globals map[*ssa.Global]*Object
	nextObj int
	nextMap int

	gors    []*Goroutine
	cur     *Goroutine
	nextGor int
	steps   int
	maxStep int
	now     int64 // virtual time (ns)
	timers  []*Timer

	nondet []NondetRec
	known  []knownRec
	openKF map[string]bool

	res *PathResult

	// concrete vector mode (translator validation / witness re-check)
	vector []VecEntry
	vecPos int

	sigs     []sigRec  // ideal signatures issued
	hashes   []hashRec // ideal digests issued
	hashers  map[*Object]*hasherState
	bigLens  map[int]int // term id -> decided byte length
	harness  string
	inInit   bool
	freshCnt int
	schedChoice bool
	notes    []string
	yield    bool
	timerSeq int
	p256     PtrV
	keyCnt   int
	randCnt  int
	bytesOfBig map[int][]*Term
	nonNeg   map[int]bool
	wk       *Worker
	pbMsgs   []Value
	makeSites map[string]map[int]*Term
	preempts int
	pools    map[*Object][]Value // sync.Pool free lists
	readyCnt int
	randReader PtrV // model of crypto/rand.Reader
	schedTrace []string // rt.SchedPoint tags in the order they were passed
	race     raceState
	maxPreempt int
	maxDelay   int // delay bound: at most this many scheduling decisions deviate from the default choice (-1: unbounded)
	delays     int
	zeroCache map[types.Type]Value
}

func (r *Run) inPrefix() bool { return r.pos < len(r.prefix) }

// decide consumes one decision. alts computes the feasible alternatives when
// the decision lies beyond the prefix; the first is taken, the rest queued.
func (r *Run) decide(alts func() []int64) int64 {
	if debugDecisions {
		tag := ""
		for i := 1; i < 5; i++ {
			if pc, _, line, ok := runtime.Caller(i); ok {
				tag += fmt.Sprintf("%s:%d<", strings.TrimPrefix(runtime.FuncForPC(pc).Name(), "main."), line)
			}
		}
		where := ""
		if r.cur != nil && len(r.cur.stack) > 0 {
			fr := r.cur.stack[len(r.cur.stack)-1]
			where = fr.fn.String()
			if fr.block != nil && fr.pc > 0 {
				p := r.eng.prog.Fset.Position(fr.block.Instrs[fr.pc-1].Pos())
				where += fmt.Sprintf(":%d", p.Line)
			}
		}
		r.notes = append(r.notes, fmt.Sprintf("decision %d by %s at %s", len(r.decisions), tag, where))
	}
	if r.pos < len(r.prefix) {
		d := r.prefix[r.pos]
		r.pos++
		r.decisions = append(r.decisions, d)
		return d
	}
	as := alts()
	if len(as) == 0 {
		panic(pathEnd{"infeasible"})
	}
	if debugDecisions && len(as) > 1 {
		where := "?"
		if r.cur != nil && len(r.cur.stack) > 0 {
			fr := r.cur.stack[len(r.cur.stack)-1]
			where = fr.fn.String()
			if fr.block != nil && fr.pc > 0 {
				p := r.eng.prog.Fset.Position(fr.block.Instrs[fr.pc-1].Pos())
				where += fmt.Sprintf(":%d", p.Line)
			}
		}
		forkMu.Lock()
		forkSites[where] += len(as) - 1
		forkMu.Unlock()
	}
	base := append([]int64(nil), r.decisions...)
	for _, a := range as[1:] {
		np := make([]int64, len(base)+1)
		copy(np, base)
		np[len(base)] = a
		r.newPrefixes = append(r.newPrefixes, np)
	}
	r.decisions = append(r.decisions, as[0])
	r.pos++
	r.prefix = append(r.prefix, as[0]) // keep pos consistent
	return as[0]
}

func (r *Run) addPC(t *Term) {
	if t.IsConst() {
		if !t.CB {
			panic(pathEnd{"infeasible"})
		}
		return
	}
	r.pc = append(r.pc, t)
	r.solver.Assert(t)
}

func (r *Run) check(assume ...*Term) SatResult {
	res := r.solver.Check(assume...)
	if res == Unknown {
		panic(engineErr("solver returned unknown/timeout"))
	}
	return res
}

// branch decides a symbolic condition; returns the Go bool taken and records
// the constraint.
func (r *Run) branch(cond *Term) bool {
	if cond.IsConst() {
		return cond.CB
	}
	d := r.decide(func() []int64 {
		var as []int64
		if r.check(cond) == Sat {
			as = append(as, 1)
			if r.check(r.ctx.Not(cond)) == Sat {
				as = append(as, 0)
			}
		} else {
			as = append(as, 0)
		}
		return as
	})
	if d == 1 {
		r.addPC(cond)
		return true
	}
	r.addPC(r.ctx.Not(cond))
	return false
}

// concretize forks over the feasible values of a bit-vector term (at most max).
func (r *Run) concretize(t *Term, max int, what string) uint64 {
	if t.IsConst() {
		return t.CV
	}
	d := r.decide(func() []int64 {
		var vals []int64
		var block []*Term
		for {
			if r.check(block...) != Sat {
				break
			}
			m, err := r.solver.ModelValues(r.ctx.varsOf(t))
			if err != nil {
				panic(engineErr("model: %v", err))
			}
			v := evalBV(t, m)
			vals = append(vals, int64(v))
			if len(vals) > max {
				panic(engineErr("concretize(%s): more than %d feasible values", what, max))
			}
			block = append(block, r.ctx.Not(r.ctx.Eq(t, r.ctx.BV(t.Sort.W, v))))
		}
		return vals
	})
	r.addPC(r.ctx.Eq(t, r.ctx.BV(t.Sort.W, uint64(d))))
	return uint64(d)
}

// varsOf collects the variables occurring in a term.
func (c *Ctx) varsOf(t *Term) []*Term {
	seen := map[int]bool{}
	var out []*Term
	var walk func(*Term)
	walk = func(x *Term) {
		if seen[x.id] {
			return
		}
		seen[x.id] = true
		if x.Op == OpVar {
			out = append(out, x)
		}
		for _, a := range x.Args {
			walk(a)
		}
	}
	walk(t)
	return out
}

// evalBV evaluates a term under a model (missing variables are 0).
func evalBV(t *Term, m map[string]*big.Int) uint64 {
	v := evalTerm(t, m)
	return v.Uint64()
}

func evalTerm(t *Term, m map[string]*big.Int) *big.Int {
	c := NewCtx()
	memo := map[int]*Term{}
	var ev func(x *Term) *Term
	ev = func(x *Term) *Term {
		if e, ok := memo[x.id]; ok {
			return e
		}
		var res *Term
		switch x.Op {
		case OpConst:
			switch x.Sort.K {
			case SBool:
				res = c.Bool(x.CB)
			case SInt:
				res = c.Int(x.CI)
			default:
				res = c.BVBig(x.Sort.W, x.bvBig())
			}
		case OpVar:
			v := m[x.Name]
			if v == nil {
				v = new(big.Int)
			}
			switch x.Sort.K {
			case SBool:
				res = c.Bool(v.Sign() != 0)
			case SInt:
				res = c.Int(v)
			default:
				res = c.BVBig(x.Sort.W, v)
			}
		default:
			args := make([]*Term, len(x.Args))
			for i, a := range x.Args {
				args[i] = ev(a)
			}
			res = c.rebuild(x, args)
		}
		memo[x.id] = res
		return res
	}
	out := ev(t)
	if !out.IsConst() {
		panic(engineErr("evalTerm: not constant: %s", out))
	}
	switch out.Sort.K {
	case SBool:
		if out.CB {
			return big.NewInt(1)
		}
		return big.NewInt(0)
	case SInt:
		return out.CI
	}
	return out.bvBig()
}

// rebuild re-applies x's operator to new arguments through the simplifier.
func (c *Ctx) rebuild(x *Term, a []*Term) *Term {
	switch x.Op {
	case OpNot:
		return c.Not(a[0])
	case OpAnd:
		return c.And(a...)
	case OpOr:
		return c.Or(a...)
	case OpEq:
		return c.Eq(a[0], a[1])
	case OpIte:
		return c.Ite(a[0], a[1], a[2])
	case OpBVNot:
		return c.BVNot(a[0])
	case OpBVNeg:
		return c.BVNeg(a[0])
	case OpConcat:
		return c.Concat(a...)
	case OpExtract:
		return c.Extract(a[0], x.A, x.B)
	case OpZeroExt:
		return c.ZeroExt(a[0], x.A)
	case OpSignExt:
		return c.SignExt(a[0], x.A)
	case OpIAdd:
		return c.IAdd(a[0], a[1])
	case OpISub:
		return c.ISub(a[0], a[1])
	case OpIMul:
		return c.IMul(a[0], a[1])
	case OpINeg:
		return c.INeg(a[0])
	case OpILe:
		return c.ILe(a[0], a[1])
	case OpILt:
		return c.ILt(a[0], a[1])
	case OpIDiv:
		return c.IDiv(a[0], a[1])
	case OpIMod:
		return c.IMod(a[0], a[1])
	case OpBV2Nat:
		return c.BV2Nat(a[0])
	case OpInt2BV:
		return c.Int2BV(a[0], x.A)
	case OpBVOr:
		return c.BVOr(a[0], a[1])
	}
	return c.bv2(x.Op, a[0], a[1])
}

// ---------------------------------------------------------------- vectors

func (r *Run) modelVector(assume ...*Term) []VecEntry {
	// caller has just established satisfiability with the same assumptions
	if r.check(assume...) != Sat {
		return nil
	}
	var vars []*Term
	for _, n := range r.nondet {
		if n.Term != nil {
			vars = append(vars, r.ctx.varsOf(n.Term)...)
		}
	}
	m, err := r.solver.ModelValues(vars)
	if err != nil {
		panic(engineErr("model: %v", err))
	}
	return r.vectorFrom(m)
}

func (r *Run) vectorFrom(m map[string]*big.Int) []VecEntry {
	out := make([]VecEntry, 0, len(r.nondet))
	for _, n := range r.nondet {
		if n.Term == nil {
			out = append(out, VecEntry{n.Kind, fmt.Sprint(n.Conc)})
			continue
		}
		v := evalTerm(n.Term, m)
		out = append(out, VecEntry{n.Kind, v.String()})
	}
	return out
}

func (r *Run) stackString() string {
	if r.cur == nil {
		return ""
	}
	var sb strings.Builder
	for i := len(r.cur.stack) - 1; i >= 0 && i >= len(r.cur.stack)-12; i-- {
		fr := r.cur.stack[i]
		pos := ""
		if fr.block != nil && fr.pc > 0 && fr.pc <= len(fr.block.Instrs) {
			p := r.eng.prog.Fset.Position(fr.block.Instrs[fr.pc-1].Pos())
			if p.IsValid() {
				pos = fmt.Sprintf(" %s:%d", shortPath(p.Filename), p.Line)
			}
		}
		fmt.Fprintf(&sb, "%s%s\n", fr.fn.String(), pos)
	}
	return sb.String()
}

func shortPath(p string) string {
	if strings.HasPrefix(p, repoDir+"/") {
		return p[len(repoDir)+1:]
	}
	if i := strings.LastIndex(p, "/src/"); i >= 0 {
		return p[i+5:]
	}
	return p
}

func sortedKeys(m map[string]bool) []string {
	out := make([]string, 0, len(m))
	for k := range m {
		out = append(out, k)
	}
	sort.Strings(out)
	return out
}
