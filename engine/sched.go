package main

// Cooperative scheduler: goroutines are coroutines of the interpreter, channel
// operations, select and timers are engine primitives.

import (
	"fmt"
	"go/types"
	"sort"

	"golang.org/x/tools/go/ssa"
)

type ChanV struct {
	id     int
	cap    int
	buf    []Value
	closed bool
	recvq  []*sudog
	sendq  []*sudog
}

type sudog struct {
	g       *Goroutine
	ch      *ChanV
	isSend  bool
	val     Value
	caseIdx int
}

type blockInfo struct {
	what   string
	sudogs []*sudog
	onWake func(idx int, v Value, ok bool)
	// poll-style blocking (mutexes, wait groups): ready is evaluated by the
	// scheduler, resume performs the operation
	ready  func() bool
	resume func()
	yield  bool // a voluntary yield (rt.SchedPoint): switching away is not a preemption
}

type Timer struct {
	when  int64
	fire  func()
	dead  bool
	seq   int
}

func (r *Run) newChan(n int) *ChanV {
	r.nextMap++
	return &ChanV{id: r.nextMap, cap: n}
}

// pickGoroutine returns the goroutine to run next (nil if none is runnable).
func (r *Run) pickGoroutine() *Goroutine {
	var runnable []*Goroutine
	for _, g := range r.gors {
		if g.finished {
			continue
		}
		if g.blocked != nil {
			if g.blocked.ready != nil && g.blocked.ready() {
				runnable = append(runnable, g)
			}
			continue
		}
		runnable = append(runnable, g)
	}
	if len(runnable) == 0 {
		return nil
	}
	var pick *Goroutine
	curRunnable := false
	for _, g := range runnable {
		if g == r.cur {
			curRunnable = true
		}
	}
	voluntary := r.cur != nil && r.cur.blocked != nil && r.cur.blocked.yield
	switch {
	case len(runnable) == 1 || !r.schedChoice:
		// default policy: keep running the current goroutine, else lowest id
		pick = runnable[0]
		if curRunnable {
			pick = r.cur
		}
	case curRunnable && !voluntary && r.preempts >= r.maxPreempt:
		// preemption bound reached: the running goroutine continues
		pick = r.cur
	default:
		// a scheduling decision: the current goroutine first (no preemption)
		cands := runnable
		if r.maxDelay >= 0 {
			// delay-bounded exploration: the default schedule is the Go
			// scheduler's usual one - the goroutine that became runnable last
			// (runnext) goes first
			cands = append([]*Goroutine(nil), runnable...)
			sort.SliceStable(cands, func(i, j int) bool { return cands[i].readySeq > cands[j].readySeq })
		}
		if curRunnable {
			base := cands
			cands = []*Goroutine{r.cur}
			for _, g := range base {
				if g != r.cur {
					cands = append(cands, g)
				}
			}
		}
		d := int64(0)
		if r.maxDelay < 0 || r.delays < r.maxDelay {
			d = r.decide(func() []int64 {
				as := make([]int64, len(cands))
				for i := range as {
					as[i] = int64(i)
				}
				return as
			})
			if d != 0 {
				r.delays++
			}
		}
		pick = cands[d]
		if curRunnable && !voluntary && pick != r.cur {
			r.preempts++
		}
		r.res.SchedChoices++
	}
	if pick.blocked != nil {
		b := pick.blocked
		pick.blocked = nil
		b.resume()
	}
	return pick
}

// schedPoint marks a point at which another goroutine may be scheduled.
func (r *Run) schedPoint(why string) {
	if r.schedChoice {
		r.yield = true
	}
}

func (r *Run) wake(g *Goroutine, idx int, v Value, ok bool) {
	b := g.blocked
	if b == nil {
		panic(engineErr("wake of a goroutine that is not blocked"))
	}
	for _, sg := range b.sudogs {
		sg.ch.remove(sg)
	}
	g.blocked = nil
	r.readyCnt++
	g.readySeq = r.readyCnt
	for _, sg := range b.sudogs {
		// the woken goroutine synchronises with the channel that woke it
		r.raceAcquire(g, sg.ch)
	}
	b.onWake(idx, v, ok)
}

func (ch *ChanV) remove(sg *sudog) {
	rm := func(q []*sudog) []*sudog {
		for i, x := range q {
			if x == sg {
				return append(q[:i:i], q[i+1:]...)
			}
		}
		return q
	}
	ch.recvq = rm(ch.recvq)
	ch.sendq = rm(ch.sendq)
}

func (r *Run) trySend(ch *ChanV, v Value) bool {
	if ch == nil {
		return false
	}
	if ch.closed {
		panic(goPanic{kind: "close", msg: "send on closed channel"})
	}
	// Both directions synchronise (Go memory model: the k-th receive on a channel
	// of capacity C happens before the (k+C)-th send completes; channel-based
	// mutexes rely on it). Per channel rather than per slot: an
	// over-approximation of happens-before, i.e. no false race reports.
	r.raceAcquire(r.cur, ch)
	r.raceRelease(r.cur, ch)
	if len(ch.recvq) > 0 {
		sg := ch.recvq[0]
		r.wake(sg.g, sg.caseIdx, copyVal(v), true)
		return true
	}
	if len(ch.buf) < ch.cap {
		ch.buf = append(ch.buf, copyVal(v))
		return true
	}
	return false
}

func (r *Run) tryRecv(ch *ChanV) (Value, bool, bool) {
	if ch == nil {
		return nil, false, false
	}
	r.raceAcquire(r.cur, ch)
	r.raceRelease(r.cur, ch)
	if len(ch.buf) > 0 {
		v := ch.buf[0]
		ch.buf = append(ch.buf[:0:0], ch.buf[1:]...)
		if len(ch.sendq) > 0 {
			sg := ch.sendq[0]
			ch.buf = append(ch.buf, sg.val)
			r.wake(sg.g, sg.caseIdx, nil, true)
		}
		return v, true, true
	}
	if len(ch.sendq) > 0 {
		sg := ch.sendq[0]
		v := sg.val
		r.wake(sg.g, sg.caseIdx, nil, true)
		return v, true, true
	}
	if ch.closed {
		return nil, false, true
	}
	return nil, false, false
}

func (r *Run) chanClose(ch *ChanV) {
	if ch == nil {
		panic(goPanic{kind: "close", msg: "close of nil channel"})
	}
	if ch.closed {
		panic(goPanic{kind: "close", msg: "close of closed channel"})
	}
	ch.closed = true
	r.raceRelease(r.cur, ch)
	for len(ch.recvq) > 0 {
		sg := ch.recvq[0]
		r.wake(sg.g, sg.caseIdx, nil, false)
	}
	for len(ch.sendq) > 0 {
		sg := ch.sendq[0]
		g := sg.g
		r.wake(g, -2, nil, false) // -2: panic on wake
	}
	r.schedPoint("close")
}

func (r *Run) execSend(g *Goroutine, fr *Frame, x *ssa.Send) {
	ch := r.get(fr, x.Chan).(*ChanV)
	v := r.get(fr, x.X)
	if r.trySend(ch, v) {
		r.schedPoint("send")
		return
	}
	sg := &sudog{g: g, ch: ch, isSend: true, val: copyVal(v)}
	if ch != nil {
		ch.sendq = append(ch.sendq, sg)
	}
	g.blocked = &blockInfo{what: "chan send", sudogs: []*sudog{sg}, onWake: func(idx int, _ Value, _ bool) {
		if idx == -2 {
			g.panic = &panicState{p: goPanic{kind: "close", msg: "send on closed channel"}}
		}
	}}
	if ch == nil {
		g.blocked.sudogs = nil
	}
}

func (r *Run) execRecv(g *Goroutine, fr *Frame, x *ssa.UnOp, chv Value) {
	ch := chv.(*ChanV)
	et := x.X.Type().Underlying().(*types.Chan).Elem()
	setRes := func(v Value, ok bool) {
		if !ok || v == nil {
			if !ok {
				v = r.zero(et)
			}
		}
		if x.CommaOk {
			r.set(fr, x, TupleV{v, r.ctx.Bool(ok)})
		} else {
			r.set(fr, x, v)
		}
	}
	if v, ok, done := r.tryRecv(ch); done {
		setRes(v, ok)
		r.schedPoint("recv")
		return
	}
	sg := &sudog{g: g, ch: ch}
	g.blocked = &blockInfo{what: "chan receive", onWake: func(_ int, v Value, ok bool) { setRes(v, ok) }}
	if ch != nil {
		ch.recvq = append(ch.recvq, sg)
		g.blocked.sudogs = []*sudog{sg}
	}
}

func (r *Run) execSelect(g *Goroutine, fr *Frame, x *ssa.Select) {
	// result tuple: (index int, recvOk bool, r_0 T_0, ... r_n-1 T_n-1)
	nrecv := 0
	for _, st := range x.States {
		if st.Dir == types.RecvOnly {
			nrecv++
		}
	}
	mkResult := func(idx int, recvIdx int, v Value, ok bool) {
		tv := make(TupleV, 2+nrecv)
		tv[0] = r.intTerm(int64(idx))
		tv[1] = r.ctx.Bool(ok)
		ri := 0
		for _, st := range x.States {
			if st.Dir == types.RecvOnly {
				et := st.Chan.Type().Underlying().(*types.Chan).Elem()
				tv[2+ri] = r.zero(et)
				ri++
			}
		}
		if recvIdx >= 0 && v != nil {
			tv[2+recvIdx] = v
		}
		r.set(fr, x, tv)
	}
	recvSlot := make([]int, len(x.States))
	ri := 0
	for i, st := range x.States {
		recvSlot[i] = -1
		if st.Dir == types.RecvOnly {
			recvSlot[i] = ri
			ri++
		}
	}
	chans := make([]*ChanV, len(x.States))
	vals := make([]Value, len(x.States))
	var ready []int
	for i, st := range x.States {
		chans[i], _ = r.get(fr, st.Chan).(*ChanV)
		ch := chans[i]
		if st.Dir == types.SendOnly {
			vals[i] = r.get(fr, st.Send)
			if ch != nil && (ch.closed || len(ch.recvq) > 0 || len(ch.buf) < ch.cap) {
				ready = append(ready, i)
			}
		} else {
			if ch != nil && (len(ch.buf) > 0 || len(ch.sendq) > 0 || ch.closed) {
				ready = append(ready, i)
			}
		}
	}
	if len(ready) > 0 {
		pick := ready[0]
		if len(ready) > 1 {
			r.res.SelectChoices++
			d := r.decide(func() []int64 {
				as := make([]int64, len(ready))
				for i := range as {
					as[i] = int64(i)
				}
				return as
			})
			pick = ready[d]
		}
		st := x.States[pick]
		if st.Dir == types.SendOnly {
			r.trySend(chans[pick], vals[pick])
			mkResult(pick, -1, nil, false)
		} else {
			v, ok, _ := r.tryRecv(chans[pick])
			mkResult(pick, recvSlot[pick], v, ok)
		}
		r.schedPoint("select")
		return
	}
	if !x.Blocking {
		mkResult(-1, -1, nil, false)
		return
	}
	b := &blockInfo{what: "select"}
	for i, st := range x.States {
		ch := chans[i]
		if ch == nil {
			continue
		}
		sg := &sudog{g: g, ch: ch, caseIdx: i}
		if st.Dir == types.SendOnly {
			sg.isSend = true
			sg.val = copyVal(vals[i])
			ch.sendq = append(ch.sendq, sg)
		} else {
			ch.recvq = append(ch.recvq, sg)
		}
		b.sudogs = append(b.sudogs, sg)
	}
	b.onWake = func(idx int, v Value, ok bool) {
		if idx == -2 {
			g.panic = &panicState{p: goPanic{kind: "close", msg: "send on closed channel"}}
			return
		}
		if x.States[idx].Dir == types.SendOnly {
			mkResult(idx, -1, nil, false)
		} else {
			mkResult(idx, recvSlot[idx], v, ok)
		}
	}
	g.blocked = b
}

// ---------------------------------------------------------------- timers

func (r *Run) addTimer(d int64, fire func()) *Timer {
	r.timerSeq++
	t := &Timer{when: r.now + d, fire: fire, seq: r.timerSeq}
	r.timers = append(r.timers, t)
	return t
}

// fireTimer fires the earliest pending timer (virtual time: only when nothing
// else can run). Returns false if there is none.
func (r *Run) fireTimer() bool {
	var live []*Timer
	for _, t := range r.timers {
		if !t.dead {
			live = append(live, t)
		}
	}
	r.timers = live
	if len(live) == 0 {
		return false
	}
	sort.SliceStable(live, func(i, j int) bool {
		if live[i].when != live[j].when {
			return live[i].when < live[j].when
		}
		return live[i].seq < live[j].seq
	})
	t := live[0]
	t.dead = true
	if t.when > r.now {
		r.now = t.when
	}
	r.res.TimersFired++
	t.fire()
	return true
}

func (r *Run) describeBlocked() string {
	s := ""
	for _, g := range r.gors {
		if g.finished || g.blocked == nil {
			continue
		}
		where := ""
		if n := len(g.stack); n > 0 {
			fr := g.stack[n-1]
			where = fr.fn.String()
			for i := n - 1; i >= 0; i-- {
				f := g.stack[i]
				if f.fn.Pkg != nil && f.block != nil && f.pc > 0 {
					p := r.eng.prog.Fset.Position(f.block.Instrs[f.pc-1].Pos())
					if p.IsValid() {
						where += fmt.Sprintf(" <- %s:%d", shortPath(p.Filename), p.Line)
					}
				}
				if i < n-4 {
					break
				}
			}
		}
		s += fmt.Sprintf("g%d(%s) blocked on %s at %s\n", g.id, g.name, g.blocked.what, where)
	}
	return s
}
