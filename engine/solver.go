package main

// Solver driver: one persistent `z3 -in` per worker, one push/pop scope per
// path; every DAG node is introduced once per scope with define-fun, path
// constraints are asserted, queries use check-sat-assuming. `unknown`, a
// timeout or any `(error` line is reported as inconclusive, after one retry on
// the other installed solvers with the full script of the scope.

import (
	"bufio"
	"fmt"
	"io"
	"math/big"
	"os"
	"os/exec"
	"strings"
	"time"
)

type SatResult int

const (
	Unsat SatResult = iota
	Sat
	Unknown
)

func (r SatResult) String() string { return [...]string{"unsat", "sat", "unknown"}[r] }

type SolverStats struct {
	Queries   int
	Time      time.Duration
	MaxQuery  time.Duration
	Fallbacks int
	Unknowns  int
}

type Solver struct {
	cmd     *exec.Cmd
	in      io.WriteCloser
	out     *bufio.Reader
	defined map[int]bool
	script  []string
	inScope bool
	Stats   SolverStats
	timeout time.Duration
	bin     string
	args    []string
	trace   io.Writer
	ctx     *Ctx // the worker's term context, reset for every path
}

var solverTimeout = 60 * time.Second

func NewSolver() (*Solver, error) {
	s := &Solver{bin: "z3", args: []string{"-in"}, timeout: solverTimeout}
	if p := os.Getenv("VERIF_SOLVER_TRACE"); p != "" {
		f, _ := os.OpenFile(p, os.O_CREATE|os.O_APPEND|os.O_WRONLY, 0o644)
		s.trace = f
	}
	if err := s.start(); err != nil {
		return nil, err
	}
	return s, nil
}

func (s *Solver) start() error {
	s.cmd = exec.Command(s.bin, s.args...)
	in, err := s.cmd.StdinPipe()
	if err != nil {
		return err
	}
	out, err := s.cmd.StdoutPipe()
	if err != nil {
		return err
	}
	s.cmd.Stderr = os.Stderr
	if err := s.cmd.Start(); err != nil {
		return err
	}
	s.in = in
	s.out = bufio.NewReaderSize(out, 1<<16)
	s.send(fmt.Sprintf("(set-option :timeout %d)", s.timeout.Milliseconds()))
	s.send("(set-option :produce-models true)")
	return nil
}

func (s *Solver) Close() {
	if s.cmd != nil {
		s.in.Close()
		s.cmd.Process.Kill()
		s.cmd.Wait()
		s.cmd = nil
	}
}

func (s *Solver) restart() {
	s.Close()
	if err := s.start(); err != nil {
		panic(err)
	}
	// re-establish the scope
	if s.inScope {
		io.WriteString(s.in, "(push 1)\n")
		for _, l := range s.script {
			io.WriteString(s.in, l+"\n")
		}
	}
}

func (s *Solver) send(line string) {
	if s.trace != nil {
		fmt.Fprintln(s.trace, line)
	}
	if _, err := io.WriteString(s.in, line+"\n"); err != nil {
		panic(engineErr("solver pipe: %v", err))
	}
}

func (s *Solver) emit(line string) {
	s.script = append(s.script, line)
	s.send(line)
}

func (s *Solver) BeginPath() {
	s.defined = map[int]bool{}
	s.script = s.script[:0]
	s.send("(push 1)")
	s.inScope = true
}

func (s *Solver) EndPath() {
	if s.inScope {
		s.send("(pop 1)")
		s.inScope = false
	}
}

// define makes sure t and all its sub-terms are known to the solver.
func (s *Solver) define(t *Term) {
	if t.Op == OpConst || s.defined[t.id] {
		return
	}
	for _, a := range t.Args {
		s.define(a)
	}
	s.defined[t.id] = true
	if t.Op == OpVar {
		s.emit(fmt.Sprintf("(declare-const %s %s)", t.Name, t.Sort))
		return
	}
	s.emit(fmt.Sprintf("(define-fun %s () %s %s)", t.ref(), t.Sort, t.body()))
}

func (s *Solver) Assert(t *Term) {
	if t.IsConst() && t.CB {
		return
	}
	s.define(t)
	s.emit(fmt.Sprintf("(assert %s)", t.ref()))
}

func (s *Solver) readLine() (string, error) {
	l, err := s.out.ReadString('\n')
	return strings.TrimSpace(l), err
}

// readSexp reads one balanced s-expression (possibly spanning lines).
func (s *Solver) readSexp() (string, error) {
	var sb strings.Builder
	depth := 0
	started := false
	for {
		l, err := s.out.ReadString('\n')
		if err != nil {
			return sb.String(), err
		}
		sb.WriteString(l)
		inStr := false
		for _, ch := range l {
			switch {
			case ch == '"':
				inStr = !inStr
			case inStr:
			case ch == '(':
				depth++
				started = true
			case ch == ')':
				depth--
			}
		}
		if started && depth <= 0 {
			return sb.String(), nil
		}
		if !started && strings.TrimSpace(l) != "" {
			return sb.String(), nil
		}
	}
}

// Check decides satisfiability of the scope's assertions plus the given
// assumption terms.
func (s *Solver) Check(assume ...*Term) SatResult {
	var lits []string
	for _, a := range assume {
		if a.IsConst() {
			if !a.CB {
				return Unsat
			}
			continue
		}
		s.define(a)
		lits = append(lits, a.ref())
	}
	q := "(check-sat-assuming (" + strings.Join(lits, " ") + "))"
	if len(lits) == 0 {
		q = "(check-sat)"
	}
	start := time.Now()
	s.send(q)
	done := make(chan string, 1)
	go func() {
		l, err := s.readLine()
		if err != nil {
			l = "(error pipe)"
		}
		done <- l
	}()
	var ans string
	select {
	case ans = <-done:
	case <-time.After(s.timeout + 10*time.Second):
		ans = "timeout"
		s.restart()
	}
	d := time.Since(start)
	s.Stats.Queries++
	s.Stats.Time += d
	if d > s.Stats.MaxQuery {
		s.Stats.MaxQuery = d
	}
	switch ans {
	case "sat":
		return Sat
	case "unsat":
		return Unsat
	}
	if strings.HasPrefix(ans, "(error") {
		// drain nothing more; the solver state is suspect
		fmt.Fprintf(os.Stderr, "solver error: %s\n", ans)
		s.restart()
	}
	// fallback: one-shot on the other solvers
	s.Stats.Fallbacks++
	r := s.fallback(lits)
	if r == Unknown {
		s.Stats.Unknowns++
	}
	return r
}

func (s *Solver) fallback(lits []string) SatResult {
	var sb strings.Builder
	sb.WriteString("(set-option :produce-models true)\n")
	for _, l := range s.script {
		sb.WriteString(l + "\n")
	}
	for _, l := range lits {
		sb.WriteString("(assert " + l + ")\n")
	}
	sb.WriteString("(check-sat)\n")
	for _, alt := range [][]string{{"z3-new", "-in", "-T:120"}, {"cvc5", "--lang=smt2", "--tlimit=120000", "--solve-bv-as-int=sum"}} {
		cmd := exec.Command(alt[0], alt[1:]...)
		cmd.Stdin = strings.NewReader(sb.String())
		out, _ := cmd.Output()
		o := strings.TrimSpace(string(out))
		if strings.Contains(o, "(error") {
			continue
		}
		if strings.HasPrefix(o, "unsat") {
			return Unsat
		}
		if strings.HasPrefix(o, "sat") {
			return Sat
		}
	}
	return Unknown
}

// ModelValues returns the values of the given variables in the model of the
// last satisfiable check (which must be repeated with the same assumptions by
// the caller: Check then ModelValues immediately).
func (s *Solver) ModelValues(vars []*Term) (map[string]*big.Int, error) {
	res := map[string]*big.Int{}
	if len(vars) == 0 {
		return res, nil
	}
	var names []string
	for _, v := range vars {
		if s.defined[v.id] {
			names = append(names, v.Name)
		}
	}
	if len(names) == 0 {
		return res, nil
	}
	s.send("(get-value (" + strings.Join(names, " ") + "))")
	txt, err := s.readSexp()
	if err != nil {
		return nil, err
	}
	if strings.Contains(txt, "(error") {
		return nil, fmt.Errorf("get-value: %s", txt)
	}
	toks := tokenize(txt)
	// expected shape: ( ( name value ) ( name value ) ... )
	i := 0
	if i < len(toks) && toks[i] == "(" {
		i++
	}
	for i < len(toks) && toks[i] == "(" {
		i++
		name := toks[i]
		i++
		v, ni := parseValue(toks, i)
		i = ni
		if i < len(toks) && toks[i] == ")" {
			i++
		}
		if v != nil {
			res[name] = v
		}
	}
	return res, nil
}

func tokenize(s string) []string {
	var toks []string
	cur := ""
	for _, ch := range s {
		switch ch {
		case '(', ')':
			if cur != "" {
				toks = append(toks, cur)
				cur = ""
			}
			toks = append(toks, string(ch))
		case ' ', '\n', '\t', '\r':
			if cur != "" {
				toks = append(toks, cur)
				cur = ""
			}
		default:
			cur += string(ch)
		}
	}
	if cur != "" {
		toks = append(toks, cur)
	}
	return toks
}

// parseValue parses #x.., #b.., decimal, (- n), true/false, (_ bvN w).
func parseValue(toks []string, i int) (*big.Int, int) {
	t := toks[i]
	switch {
	case t == "true":
		return big.NewInt(1), i + 1
	case t == "false":
		return big.NewInt(0), i + 1
	case strings.HasPrefix(t, "#x"):
		v, _ := new(big.Int).SetString(t[2:], 16)
		return v, i + 1
	case strings.HasPrefix(t, "#b"):
		v, _ := new(big.Int).SetString(t[2:], 2)
		return v, i + 1
	case t == "(":
		// (- n) or (_ bvN w)
		if toks[i+1] == "-" {
			v, ni := parseValue(toks, i+2)
			if v != nil {
				v = new(big.Int).Neg(v)
			}
			return v, ni + 1
		}
		if toks[i+1] == "_" && strings.HasPrefix(toks[i+2], "bv") {
			v, _ := new(big.Int).SetString(toks[i+2][2:], 10)
			return v, i + 5
		}
		// skip unknown expression
		depth := 0
		for j := i; j < len(toks); j++ {
			if toks[j] == "(" {
				depth++
			} else if toks[j] == ")" {
				depth--
				if depth == 0 {
					return nil, j + 1
				}
			}
		}
		return nil, len(toks)
	default:
		v, ok := new(big.Int).SetString(t, 10)
		if !ok {
			return nil, i + 1
		}
		return v, i + 1
	}
}
