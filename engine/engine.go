package main

// Engine: loads /repo (current working tree) with the harness overlay, builds
// SSA, and explores harness functions path by path on a pool of workers.

import (
	"fmt"
	"go/types"
	"os"
	"path/filepath"
	"runtime/debug"
	"sort"
	"strings"
	"sync"
	"time"

	"golang.org/x/tools/go/packages"
	"golang.org/x/tools/go/ssa"
	"golang.org/x/tools/go/ssa/ssautil"
)

// repoDir is the tree under verification. VERIF_REPO points the tool at a
// scratch copy (used to evaluate the checks against seeded changes); the
// registered commands never set it.
var repoDir = envOr("VERIF_REPO", "/repo")

// outDir receives evidence and replay files (VERIF_OUT for scratch runs).
var outDir = envOr("VERIF_OUT", "/verif")

func envOr(k, d string) string {
	if v := os.Getenv(k); v != "" {
		return v
	}
	return d
}

const (
	modPath    = "perun.network/go-perun"
	overlayDir = "/verif/harness/overlay"
	rtPkg      = modPath + "/internal/verifrt"
)

type intrinsicFn func(r *Run, g *Goroutine, fv *FuncV, args []Value, retTo func(Value)) (Value, bool)

type Engine struct {
	prog       *ssa.Program
	pkgs       map[string]*ssa.Package
	intrinsics map[string]intrinsicFn
	initPkgs   map[string]bool
	symLenK    int
	maxSymElems int
	maxStep    int
	maxPaths   int
	workers    int
	openKF     map[string]bool
	loadTime   time.Duration
	overlay    map[string][]byte
	bounds     map[string]int
	intrByFn   map[*ssa.Function]intrinsicFn
	intrMu     sync.RWMutex
}

// overlayFiles maps every file under overlayDir to the same relative path in /repo.
func overlayFiles() (map[string][]byte, error) {
	ov := map[string][]byte{}
	err := filepath.Walk(overlayDir, func(p string, info os.FileInfo, err error) error {
		if err != nil {
			return err
		}
		if info.IsDir() || !strings.HasSuffix(p, ".go") {
			return nil
		}
		rel, _ := filepath.Rel(overlayDir, p)
		data, err := os.ReadFile(p)
		if err != nil {
			return err
		}
		ov[filepath.Join(repoDir, rel)] = data
		return nil
	})
	return ov, err
}

func NewEngine(patterns []string) (*Engine, error) {
	start := time.Now()
	ov, err := overlayFiles()
	if err != nil {
		return nil, err
	}
	cfg := &packages.Config{
		Mode:    packages.LoadAllSyntax,
		Dir:     repoDir,
		Overlay: ov,
		Env:     append(os.Environ(), "GOFLAGS=-mod=mod", "GOPROXY=off", "GOSUMDB=off", "GOTOOLCHAIN=local"),
	}
	pkgs, err := packages.Load(cfg, patterns...)
	if err != nil {
		return nil, err
	}
	nerr := 0
	packages.Visit(pkgs, nil, func(p *packages.Package) {
		for _, e := range p.Errors {
			fmt.Fprintf(os.Stderr, "load error: %v\n", e)
			nerr++
		}
	})
	if nerr > 0 {
		return nil, fmt.Errorf("%d package load errors", nerr)
	}
	prog, _ := ssautil.AllPackages(pkgs, ssa.InstantiateGenerics)
	prog.Build()
	e := &Engine{
		prog:       prog,
		pkgs:       map[string]*ssa.Package{},
		intrinsics: map[string]intrinsicFn{},
		initPkgs:   map[string]bool{},
		symLenK:    8,
		maxSymElems: 1100,
		maxStep:    3_000_000,
		maxPaths:   400_000,
		workers:    16,
		openKF:     map[string]bool{},
		overlay:    ov,
		intrByFn:   map[*ssa.Function]intrinsicFn{},
	}
	for _, p := range prog.AllPackages() {
		e.pkgs[p.Pkg.Path()] = p
		if initAllowed(p.Pkg.Path()) {
			e.initPkgs[p.Pkg.Path()] = true
		}
	}
	registerIntrinsics(e)
	e.loadTime = time.Since(start)
	return e, nil
}

func isTestSupportPkg(path string) bool {
	return strings.HasPrefix(path, modPath) && (strings.HasSuffix(path, "/test") || strings.Contains(path, "/test/"))
}

func initAllowed(path string) bool {
	switch {
	case isTestSupportPkg(path):
		return false
	case strings.HasPrefix(path, modPath+"/wire/net/libp2p"):
		return false
	case path == modPath || strings.HasPrefix(path, modPath+"/"):
		return true
	case strings.HasPrefix(path, "polycry.pt/poly-go"):
		return true
	}
	switch path {
	case "github.com/pkg/errors", "golang.org/x/sync/errgroup",
		"io", "bytes", "encoding/binary", "sort", "strings", "unicode/utf8", "math", "math/bits", "strconv", "encoding/hex",
		"context", "io/ioutil", "bufio":
		return true
	}
	return false
}

// ---------------------------------------------------------------- exploration

type HarnessResult struct {
	Name         string
	Paths        int
	Steps        int64
	Violations   []Violation           // new violations (deduplicated by label)
	KnownHits    map[string]Violation  // finding id -> example
	Reached      map[string][]VecEntry // label -> witness
	AssertsOK    map[string]int
	Inconclusive map[string]int // reason -> count
	Outcomes     map[string]int
	Funcs        map[string]bool
	Intrinsics   map[string]bool
	Solver       SolverStats
	Wall         time.Duration
	Samples      []string
	SchedChoices int
	TimersFired  int
	MaxDepth     int
	Observes     []ObsRec
}

type ExploreOpts struct {
	MaxViolationsPerLabel int
	Vector                []VecEntry // concrete mode: run exactly this vector
	SchedChoice           bool
	snap                  **Snapshot
	snapOnly              bool
}

type workItem struct{ prefix []int64 }

func (e *Engine) Explore(h *ssa.Function, opts ExploreOpts) *HarnessResult {
	start := time.Now()
	hr := &HarnessResult{
		Name: h.Name(), KnownHits: map[string]Violation{}, Reached: map[string][]VecEntry{},
		AssertsOK: map[string]int{}, Inconclusive: map[string]int{}, Outcomes: map[string]int{},
		Funcs: map[string]bool{}, Intrinsics: map[string]bool{},
	}
	var mu sync.Mutex
	cond := sync.NewCond(&mu)
	stack := []workItem{{nil}}
	active := 0
	violSeen := map[string]int{}
	stop := false

	nw := e.workers
	if opts.Vector != nil {
		nw = 1
	}
	// run the package initialisers once; every path starts from a clone
	if os.Getenv("VERIF_NO_SNAPSHOT") == "" {
		var snap *Snapshot
		opts.snap = &snap
		solver, err := NewSolver()
		if err != nil {
			panic(err)
		}
		solver.ctx = NewCtx()
		wk := &Worker{solver: solver, ctx: solver.ctx, regPool: map[int][][]Value{}, funcs: map[*ssa.Function]bool{}, intr: map[string]bool{}}
		pr := e.runPath(h, nil, wk, opts)
		solver.Close()
		if snap == nil {
			opts.snap = nil
			if pr.Inconclusive != "" {
				hr.Inconclusive[pr.Inconclusive]++
				hr.Wall = time.Since(start)
				return hr
			}
		}
	}
	var wg sync.WaitGroup
	for w := 0; w < nw; w++ {
		wg.Add(1)
		go func() {
			defer wg.Done()
			solver, err := NewSolver()
			if err != nil {
				panic(err)
			}
			defer solver.Close()
			solver.ctx = NewCtx()
			wk := &Worker{solver: solver, ctx: solver.ctx, regPool: map[int][][]Value{}, funcs: map[*ssa.Function]bool{}, intr: map[string]bool{}}
			for {
				mu.Lock()
				for len(stack) == 0 && active > 0 && !stop {
					cond.Wait()
				}
				if stop || (len(stack) == 0 && active == 0) {
					mu.Unlock()
					cond.Broadcast()
					break
				}
				it := stack[len(stack)-1]
				stack = stack[:len(stack)-1]
				active++
				mu.Unlock()

				pr := e.runPath(h, it.prefix, wk, opts)

				mu.Lock()
				active--
				hr.Paths++
				hr.Steps += int64(pr.Steps)
				hr.Outcomes[pr.Outcome]++
				hr.SchedChoices += pr.SchedChoices
				hr.TimersFired += pr.TimersFired
				if len(pr.Decisions) > hr.MaxDepth {
					hr.MaxDepth = len(pr.Decisions)
				}
				if pr.Inconclusive != "" {
					hr.Inconclusive[pr.Inconclusive]++
				}
				for _, v := range pr.Violations {
					if v.Known != "" {
						if _, ok := hr.KnownHits[v.Known]; !ok {
							hr.KnownHits[v.Known] = v
						}
						continue
					}
					violSeen[v.Label]++
					if violSeen[v.Label] <= max(1, opts.MaxViolationsPerLabel) {
						hr.Violations = append(hr.Violations, v)
					}
				}
				for l, w := range pr.Reached {
					if _, ok := hr.Reached[l]; !ok {
						hr.Reached[l] = w
					}
				}
				if opts.Vector != nil {
					hr.Observes = append(hr.Observes, pr.Observes...)
				}
				for l, n := range pr.AssertsOK {
					hr.AssertsOK[l] += n
				}
				for f := range pr.Funcs {
					hr.Funcs[f] = true
				}
				for f := range pr.Intrinsics {
					hr.Intrinsics[f] = true
				}
				if len(hr.Samples) < 5 && pr.Sample != "" {
					hr.Samples = append(hr.Samples, pr.Sample)
				}
				for _, np := range pr.NewPrefixes {
					stack = append(stack, workItem{np})
				}
				if hr.Paths+len(stack) > e.maxPaths {
					hr.Inconclusive[fmt.Sprintf("path budget of %d exceeded", e.maxPaths)]++
					stop = true
				}
				mu.Unlock()
				cond.Broadcast()
			}
			mu.Lock()
			for f := range wk.funcs {
				hr.Funcs[getFnInfo(f).name] = true
			}
			for f := range wk.intr {
				hr.Intrinsics[f] = true
			}
			hr.Solver.Queries += solver.Stats.Queries
			hr.Solver.Time += solver.Stats.Time
			hr.Solver.Fallbacks += solver.Stats.Fallbacks
			hr.Solver.Unknowns += solver.Stats.Unknowns
			if solver.Stats.MaxQuery > hr.Solver.MaxQuery {
				hr.Solver.MaxQuery = solver.Stats.MaxQuery
			}
			mu.Unlock()
		}()
	}
	wg.Wait()
	sort.Slice(hr.Violations, func(i, j int) bool { return hr.Violations[i].Label < hr.Violations[j].Label })
	hr.Wall = time.Since(start)
	return hr
}

// runPath executes the harness once along the given decision prefix.
func (e *Engine) runPath(h *ssa.Function, prefix []int64, wk *Worker, opts ExploreOpts) (pr *PathResult) {
	solver := wk.solver
	wk.gen++
	pr = &PathResult{Prefix: prefix, Reached: map[string][]VecEntry{}, AssertsOK: map[string]int{}, Funcs: map[string]bool{}, Intrinsics: map[string]bool{}}
	r := &Run{
		eng: e, ctx: solver.ctx, solver: solver, wk: wk,
		prefix:  append([]int64(nil), prefix...),
		globals: map[*ssa.Global]*Object{},
		maxStep: e.maxStep, res: pr, openKF: e.openKF,
		hashers: map[*Object]*hasherState{}, bigLens: map[int]int{}, nonNeg: map[int]bool{}, zeroCache: map[types.Type]Value{},
		harness: h.Name(), vector: opts.Vector, schedChoice: opts.SchedChoice,
	}
	r.maxPreempt = e.bounds["P"]
	r.maxDelay = -1
	if d, ok := e.bounds["D"]; ok {
		r.maxDelay = d
	}
	if e.bounds["race"] == 1 {
		r.race = raceState{on: true, slots: map[slotKey]*slotState{}, syncVC: map[interface{}]VC{}, found: map[string]bool{}}
	}
	solver.ctx.Reset()
	solver.BeginPath()
	defer solver.EndPath()
	defer func() {
		pr.NewPrefixes = r.newPrefixes
		pr.Steps = r.steps
		pr.Decisions = r.decisions
		if x := recover(); x != nil {
			switch p := x.(type) {
			case pathEnd:
				pr.Outcome = p.why
			case engineError:
				pr.Outcome = "inconclusive"
				pr.Inconclusive = p.msg
				if os.Getenv("VERIF_DEBUG") != "" {
					fmt.Fprintf(os.Stderr, "inconclusive: %s\n%s\n", p.msg, r.stackString())
				}
			case processCrash:
				pr.Outcome = "panic"
				r.reportEnd("panic", "unrecovered panic in a goroutine (the process terminates): "+p.p.p.msg+"\n"+p.p.stack)
			case deadlock:
				pr.Outcome = "deadlock"
				r.reportEnd("deadlock", "all goroutines are blocked:\n"+r.describeBlocked())
			default:
				pr.Outcome = "inconclusive"
				pr.Inconclusive = fmt.Sprintf("engine crash: %v", x)
				if os.Getenv("VERIF_DEBUG") != "" {
					fmt.Fprintf(os.Stderr, "engine crash: %v\n%s\ninterpreted stack:\n%s\n", x, debug.Stack(), r.stackString())
				}
			}
		}
	}()
	main := r.newGoroutine("main")
	r.cur = main
	// package initialisers (concrete): executed once per exploration, then cloned
	if snap := opts.snap; snap != nil && *snap != nil {
		r.restore(*snap)
	} else {
		r.inInit = true
		if init := h.Pkg.Func("init"); init != nil {
			r.invoke(main, &FuncV{fn: init}, nil, nil)
			r.runMain(main)
			if main.panic != nil {
				panic(engineErr("package initialisation panicked: %s\n%s", main.panic.p.msg, main.panic.stack))
			}
		}
		r.inInit = false
		if os.Getenv("VERIF_DEBUG") == "2" {
			fmt.Fprintf(os.Stderr, "init steps: %d\n", r.steps)
		}
		if opts.snap != nil && len(r.sigs) == 0 && len(r.hashes) == 0 {
			if sn := r.takeSnapshot(); sn != nil {
				*opts.snap = sn
				opts.snapOnly = true
			}
		}
	}
	if opts.snapOnly {
		pr.Outcome = "snapshot"
		return pr
	}
	main.finished = false
	r.steps = 0
	r.invoke(main, &FuncV{fn: h}, nil, nil)
	r.runMain(main)
	if main.panic != nil {
		pr.Outcome = "panic"
		r.reportEnd("panic", main.panic.p.msg+"\n"+main.panic.stack)
	} else {
		pr.Outcome = "normal"
	}
	if len(pr.Races) > 0 {
		r.violation(r.harness+".race", "race", strings.Join(pr.Races, "\n"), r.ctx.Bool(false))
	}
	if len(pr.Sample) == 0 {
		pr.Sample = r.sampleString()
	}
	return pr
}

// reportEnd reports a path that ended in a panic or deadlock as a violation of
// the implicit obligation "<harness>.<kind>", subject to the known findings.
func (r *Run) reportEnd(kind, detail string) {
	r.violation(r.harness+"."+kind, kind, detail, r.ctx.Bool(false))
}

func (r *Run) sampleString() string {
	var sb strings.Builder
	fmt.Fprintf(&sb, "decisions=%v nondet=%d pc=%d selects=%d", r.decisions, len(r.nondet), len(r.pc), r.res.SelectChoices)
	if debugDecisions {
		sb.WriteString("\n" + strings.Join(r.notes, "\n"))
	}
	return sb.String()
}

// violation checks the negation of cond under the path condition, split by the
// open known findings, and records what is satisfiable. Returns whether cond
// can be assumed afterwards.
func (r *Run) violation(label, kind, detail string, cond *Term) {
	c := r.ctx
	if len(r.notes) > 0 {
		detail += strings.Join(r.notes, "\n")
	}
	notc := c.Not(cond)
	var open []knownRec
	for _, k := range r.known {
		if r.openKF[k.id] {
			open = append(open, k)
		}
	}
	ex := []*Term{notc}
	for _, k := range open {
		ex = append(ex, c.Not(k.cond))
	}
	q := c.And(ex...)
	found := false
	if !(q.IsConst() && !q.CB) && r.check(q) == Sat {
		vec := r.modelVector(q)
		r.res.Violations = append(r.res.Violations, Violation{Label: label, Kind: kind, Detail: detail, Vector: vec, Decision: append([]int64(nil), r.decisions...), Stack: r.stackString(), Sched: append([]string(nil), r.schedTrace...)})
		found = true
	}
	for _, k := range open {
		qk := c.And(notc, k.cond)
		if qk.IsConst() && !qk.CB {
			continue
		}
		if r.check(qk) == Sat {
			vec := r.modelVector(qk)
			r.res.Violations = append(r.res.Violations, Violation{Label: label, Kind: kind, Detail: detail, Vector: vec, Decision: append([]int64(nil), r.decisions...), Known: k.id, Stack: r.stackString(), Sched: append([]string(nil), r.schedTrace...)})
			found = true
		}
	}
	if !found {
		r.res.AssertsOK[label]++
	}
}
