package main

// Happens-before data-race detection (vector clocks) over the interpreted
// heap, used by the concurrency harnesses: two accesses to the same memory
// slot by different goroutines, at least one a write, not ordered by
// goroutine creation, mutexes, RWMutexes, channels, WaitGroups, Once or
// timers, are reported as a violation "<harness>.race" and confirmed natively
// under `go test -race`.

import (
	"fmt"

	"golang.org/x/tools/go/ssa"
)

type VC map[int]int

func (v VC) copy() VC {
	n := make(VC, len(v))
	for k, x := range v {
		n[k] = x
	}
	return n
}

func (v VC) join(o VC) {
	for k, x := range o {
		if x > v[k] {
			v[k] = x
		}
	}
}

type accessRec struct {
	g     int
	clock int
	site  string
}

type slotKey struct {
	obj  *Object
	p0   int
	p1   int
	isMap *MapV
}

type slotState struct {
	write *accessRec
	reads []accessRec
}

type raceState struct {
	on     bool
	slots  map[slotKey]*slotState
	syncVC map[interface{}]VC // mutex objects, channels, waitgroups ...
	found  map[string]bool
}

func (r *Run) gvc(g *Goroutine) VC {
	if g.vc == nil {
		g.vc = VC{g.id: 1}
	}
	return g.vc
}

func (r *Run) raceFork(parent, child *Goroutine) {
	if !r.race.on || parent == nil {
		return
	}
	child.vc = r.gvc(parent).copy()
	child.vc[child.id] = 1
	parent.vc[parent.id]++
}

func (r *Run) raceRelease(g *Goroutine, key interface{}) {
	if !r.race.on || g == nil {
		return
	}
	v := r.race.syncVC[key]
	if v == nil {
		v = VC{}
		r.race.syncVC[key] = v
	}
	v.join(r.gvc(g))
	g.vc[g.id]++
}

func (r *Run) raceAcquire(g *Goroutine, key interface{}) {
	if !r.race.on || g == nil {
		return
	}
	if v := r.race.syncVC[key]; v != nil {
		r.gvc(g).join(v)
	}
}

func keyOf(p PtrV) slotKey {
	k := slotKey{obj: p.obj, p0: -1, p1: -1}
	if len(p.path) > 0 {
		k.p0 = p.path[0]
	}
	if len(p.path) > 1 {
		k.p1 = p.path[1]
	}
	return k
}

func (r *Run) siteOf(in ssa.Instruction) string {
	pos := r.eng.prog.Fset.Position(in.Pos())
	if !pos.IsValid() {
		if in.Parent() != nil {
			return in.Parent().String()
		}
		return "?"
	}
	return fmt.Sprintf("%s:%d", shortPath(pos.Filename), pos.Line)
}

func (r *Run) raceAccess(g *Goroutine, k slotKey, write bool, in ssa.Instruction) {
	if !r.race.on || g == nil || r.inInit {
		return
	}
	vc := r.gvc(g)
	st := r.race.slots[k]
	if st == nil {
		st = &slotState{}
		r.race.slots[k] = st
	}
	report := func(prev *accessRec, prevWrite bool) {
		site := r.siteOf(in)
		a, b := prev.site, site
		if a > b {
			a, b = b, a
		}
		key := a + "|" + b
		if r.race.found[key] {
			return
		}
		r.race.found[key] = true
		kind := func(w bool) string {
			if w {
				return "write"
			}
			return "read"
		}
		r.res.Races = append(r.res.Races, fmt.Sprintf("%s at %s (goroutine %d) races with %s at %s (goroutine %d)",
			kind(write), site, g.id, kind(prevWrite), prev.site, prev.g))
	}
	if w := st.write; w != nil && w.g != g.id && w.clock > vc[w.g] {
		report(w, true)
	}
	if write {
		for i := range st.reads {
			rd := &st.reads[i]
			if rd.g != g.id && rd.clock > vc[rd.g] {
				report(rd, false)
			}
		}
		st.write = &accessRec{g: g.id, clock: vc[g.id], site: r.siteOf(in)}
		st.reads = st.reads[:0]
		return
	}
	for i := range st.reads {
		if st.reads[i].g == g.id {
			st.reads[i].clock = vc[g.id]
			return
		}
	}
	st.reads = append(st.reads, accessRec{g: g.id, clock: vc[g.id], site: r.siteOf(in)})
}
