package main

// Native side: the same harness source is compiled by the Go toolchain with
// `go test -overlay` (nothing is written into /repo) and driven by a generated
// test file. Used for (a) replaying solver counterexamples against the real
// build and (b) translator validation of the interpreter.

import (
	"bytes"
	"encoding/json"
	"fmt"
	"os"
	"os/exec"
	"path/filepath"
	"sort"
	"strings"
	"time"
)

const driverTemplate = `package %s

import (
	"encoding/json"
	"fmt"
	"math/big"
	"math/rand"
	"os"
	"strconv"
	"testing"

	rt "perun.network/go-perun/internal/verifrt"
)

var verifHarnesses = map[string]func(){
%s}

type verifTVRec struct {
	Vector   []rt.Entry
	Failed   []string
	Reached  []string
	Observed []string
	Panic    string
	Assume   bool
}

func TestVerifNative(t *testing.T) {
	name := os.Getenv("VERIF_HARNESS")
	h := verifHarnesses[name]
	if h == nil {
		t.Fatalf("unknown harness %%q", name)
	}
	switch os.Getenv("VERIF_MODE") {
	case "replay":
		rt.AllocProxy = true
		if err := rt.Load(); err != nil {
			t.Fatal(err)
		}
		failed, pmsg, assume := rt.RunNative(name, h)
		out, _ := json.Marshal(verifTVRec{Vector: rt.Used(), Failed: failed, Reached: rt.Reached, Observed: rt.Observed, Panic: pmsg, Assume: assume})
		fmt.Printf("VERIF-RESULT %%s\n", out)
	case "tv":
		seed, _ := strconv.ParseInt(os.Getenv("VERIF_SEED"), 10, 64)
		n, _ := strconv.Atoi(os.Getenv("VERIF_TV_N"))
		rng := rand.New(rand.NewSource(seed))
		rt.LoadBounds()
		for i := 0; i < n; i++ {
			rt.SetVector(nil)
			rt.Random = func(kind string, arity int64) string {
				switch kind {
				case "choice":
					return strconv.FormatInt(rng.Int63n(arity), 10)
				case "bool":
					return strconv.Itoa(rng.Intn(2))
				case "nat":
					if rt.HintHi != nil {
						span := new(big.Int).Sub(rt.HintHi, rt.HintLo)
						v := new(big.Int).Rand(rng, span)
						if rng.Intn(4) == 0 {
							v.SetInt64(0)
						}
						return v.Add(v, rt.HintLo).String()
					}
					switch rng.Intn(4) {
					case 0:
						return "0"
					case 1:
						return strconv.Itoa(rng.Intn(4))
					case 2:
						return strconv.Itoa(rng.Intn(256))
					}
					return strconv.Itoa(rng.Intn(70000))
				case "int":
					return strconv.Itoa(rng.Intn(600) - 300)
				}
				var max uint64
				switch kind {
				case "u8":
					max = 0xff
				case "u16":
					max = 0xffff
				case "u32":
					max = 0xffffffff
				default:
					max = ^uint64(0)
				}
				switch rng.Intn(5) {
				case 0:
					return "0"
				case 1:
					return strconv.FormatUint(uint64(rng.Intn(4)), 10)
				case 2:
					return strconv.FormatUint(max-uint64(rng.Intn(2)), 10)
				}
				return strconv.FormatUint(rng.Uint64()&max, 10)
			}
			failed, pmsg, assume := rt.RunNative(name, h)
			rt.Random = nil
			out, _ := json.Marshal(verifTVRec{Vector: rt.Used(), Failed: failed, Reached: rt.Reached, Observed: rt.Observed, Panic: pmsg, Assume: assume})
			fmt.Printf("VERIF-RESULT %%s\n", out)
		}
	default:
		t.Fatal("VERIF_MODE not set")
	}
}
`

type NativeRec struct {
	Vector   []VecEntry
	Failed   []string
	Reached  []string
	Observed []string
	Panic    string
	Assume   bool
}

type NativeRunner struct {
	scratch string
	ovFile  map[string]string // pkg rel dir -> overlay json
}

func NewNativeRunner() (*NativeRunner, error) {
	d, err := os.MkdirTemp("/var/tmp", "verif-native-")
	if err != nil {
		return nil, err
	}
	return &NativeRunner{scratch: d, ovFile: map[string]string{}}, nil
}

func (n *NativeRunner) Close() { os.RemoveAll(n.scratch) }

// prepare writes the driver test file and the overlay description for a
// harness package (relDir relative to /repo).
func (n *NativeRunner) prepare(relDir, pkgName string, harnesses []string) (string, error) {
	if f, ok := n.ovFile[relDir]; ok {
		return f, nil
	}
	sort.Strings(harnesses)
	var reg strings.Builder
	for _, h := range harnesses {
		fmt.Fprintf(&reg, "\t%q: %s,\n", h, h)
	}
	drv := filepath.Join(n.scratch, strings.ReplaceAll(relDir, "/", "_")+"_driver_test.go")
	if err := os.WriteFile(drv, []byte(fmt.Sprintf(driverTemplate, pkgName, reg.String())), 0o644); err != nil {
		return "", err
	}
	repl := map[string]string{}
	err := filepath.Walk(overlayDir, func(p string, info os.FileInfo, err error) error {
		if err != nil || info.IsDir() || !strings.HasSuffix(p, ".go") {
			return err
		}
		rel, _ := filepath.Rel(overlayDir, p)
		repl[filepath.Join(repoDir, rel)] = p
		return nil
	})
	if err != nil {
		return "", err
	}
	repl[filepath.Join(repoDir, relDir, "zz_verif_driver_test.go")] = drv
	data, _ := json.Marshal(map[string]interface{}{"Replace": repl})
	f := filepath.Join(n.scratch, strings.ReplaceAll(relDir, "/", "_")+"_overlay.json")
	if err := os.WriteFile(f, data, 0o644); err != nil {
		return "", err
	}
	n.ovFile[relDir] = f
	return f, nil
}

func (n *NativeRunner) goTest(relDir, ov string, env []string, race bool) ([]NativeRec, string, error) {
	// go test would chdir into the (overlay-only) package directory, so build
	// the test binary once and run it ourselves.
	bin := filepath.Join(n.scratch, strings.ReplaceAll(relDir, "/", "_")+".test")
	if race {
		bin += ".race"
	}
	if _, err := os.Stat(bin); err != nil {
		args := []string{"test", "-c", "-vet=off", "-overlay", ov, "-o", bin}
		if race {
			args = append(args, "-race")
		}
		args = append(args, "./"+relDir)
		cmd := exec.Command("go", args...)
		cmd.Dir = repoDir
		cmd.Env = append(os.Environ(), "GOFLAGS=-mod=mod", "GOPROXY=off", "GOSUMDB=off", "GOTOOLCHAIN=local")
		if out, err := cmd.CombinedOutput(); err != nil {
			return nil, string(out), fmt.Errorf("building native harness: %v", err)
		}
	}
	cmd := exec.Command(bin, "-test.run", "^TestVerifNative$", "-test.v", "-test.timeout", "20m")
	cmd.Dir = repoDir
	cmd.Env = append(os.Environ(), env...)
	var out bytes.Buffer
	cmd.Stdout = &out
	cmd.Stderr = &out
	err := cmd.Run()
	var recs []NativeRec
	for _, l := range strings.Split(out.String(), "\n") {
		if i := strings.Index(l, "VERIF-RESULT "); i >= 0 {
			var r NativeRec
			if json.Unmarshal([]byte(l[i+len("VERIF-RESULT "):]), &r) == nil {
				recs = append(recs, r)
			}
		}
	}
	return recs, out.String(), err
}

// Replay runs one harness natively against a replay file.
func (n *NativeRunner) Replay(relDir, pkgName string, harnesses []string, harness, replayFile string) (*NativeRec, string, error) {
	return n.ReplayRace(relDir, pkgName, harnesses, harness, replayFile, false)
}

// ReplayRace is Replay, optionally built with the race detector.
func (n *NativeRunner) ReplayRace(relDir, pkgName string, harnesses []string, harness, replayFile string, race bool) (*NativeRec, string, error) {
	ov, err := n.prepare(relDir, pkgName, harnesses)
	if err != nil {
		return nil, "", err
	}
	recs, out, err := n.goTest(relDir, ov, []string{"VERIF_MODE=replay", "VERIF_HARNESS=" + harness, "VERIF_VECTOR=" + replayFile}, race)
	if len(recs) == 0 && err != nil {
		// the process died: an unrecovered panic in a goroutine or a fatal error
		for _, l := range strings.Split(out, "\n") {
			if strings.HasPrefix(l, "panic: ") || strings.HasPrefix(l, "fatal error: ") {
				return &NativeRec{Failed: []string{harness + ".panic"}, Panic: l}, out, nil
			}
		}
	}
	if len(recs) == 0 {
		return nil, out, fmt.Errorf("native replay produced no result (%v)", err)
	}
	return &recs[0], out, nil
}

// RandomRuns executes a harness natively on n random vectors.
func (n *NativeRunner) RandomRuns(relDir, pkgName string, harnesses []string, harness string, seed int64, count int, boundsFile string) ([]NativeRec, string, error) {
	ov, err := n.prepare(relDir, pkgName, harnesses)
	if err != nil {
		return nil, "", err
	}
	start := time.Now()
	recs, out, err := n.goTest(relDir, ov, []string{"VERIF_MODE=tv", "VERIF_HARNESS=" + harness,
		fmt.Sprintf("VERIF_SEED=%d", seed), fmt.Sprintf("VERIF_TV_N=%d", count), "VERIF_VECTOR=" + boundsFile}, false)
	_ = start
	if len(recs) == 0 {
		return nil, out, fmt.Errorf("native run produced no result (%v)", err)
	}
	return recs, out, nil
}
