package main

import (
	"fmt"
	"go/token"
	"go/types"
	"math"
	"sort"
	"strings"
	"unicode/utf8"

	"golang.org/x/tools/go/ssa"
)

// ---------------------------------------------------------------- binop

func (r *Run) binop(op token.Token, x, y Value, xt, yt types.Type) Value {
	c := r.ctx
	switch op {
	case token.EQL:
		return r.equal(x, y)
	case token.NEQ:
		return c.Not(r.equal(x, y))
	}
	switch a := x.(type) {
	case *Term:
		b, ok := y.(*Term)
		if !ok {
			panic(engineErr("binop %v: %T vs %T", op, x, y))
		}
		if a.Sort.K == SBool {
			switch op {
			case token.LAND, token.AND:
				return c.And(a, b)
			case token.LOR, token.OR:
				return c.Or(a, b)
			}
			panic(engineErr("bool binop %v", op))
		}
		_, signed, _ := isIntType(xt)
		switch op {
		case token.ADD:
			return c.BVAdd(a, b)
		case token.SUB:
			return c.BVSub(a, b)
		case token.MUL:
			return c.BVMul(a, b)
		case token.QUO, token.REM:
			if !b.IsConst() {
				if r.branch(c.Eq(b, c.BV(b.Sort.W, 0))) {
					panic(goPanic{kind: "divide", msg: "integer divide by zero"})
				}
			} else if b.CV == 0 {
				panic(goPanic{kind: "divide", msg: "integer divide by zero"})
			}
			if op == token.QUO {
				if signed {
					return c.BVSDiv(a, b)
				}
				return c.BVUDiv(a, b)
			}
			if signed {
				return c.BVSRem(a, b)
			}
			return c.BVURem(a, b)
		case token.AND:
			return c.BVAnd(a, b)
		case token.OR:
			return c.BVOr(a, b)
		case token.XOR:
			return c.BVXor(a, b)
		case token.AND_NOT:
			return c.BVAnd(a, c.BVNot(b))
		case token.SHL, token.SHR:
			return r.shift(op, a, b, signed, yt)
		case token.LSS:
			if signed {
				return c.BVSlt(a, b)
			}
			return c.BVUlt(a, b)
		case token.LEQ:
			if signed {
				return c.BVSle(a, b)
			}
			return c.BVUle(a, b)
		case token.GTR:
			if signed {
				return c.BVSlt(b, a)
			}
			return c.BVUlt(b, a)
		case token.GEQ:
			if signed {
				return c.BVSle(b, a)
			}
			return c.BVUle(b, a)
		}
	case FloatV:
		b := y.(FloatV)
		switch op {
		case token.ADD:
			return a + b
		case token.SUB:
			return a - b
		case token.MUL:
			return a * b
		case token.QUO:
			return a / b
		case token.LSS:
			return c.Bool(a < b)
		case token.LEQ:
			return c.Bool(a <= b)
		case token.GTR:
			return c.Bool(a > b)
		case token.GEQ:
			return c.Bool(a >= b)
		}
	case *StrV:
		b := y.(*StrV)
		switch op {
		case token.ADD:
			if a.opaque || b.opaque {
				return &StrV{opaque: true}
			}
			if a.sym == nil && b.sym == nil {
				return &StrV{s: a.s + b.s}
			}
			return r.strFromBytes(append(append([]*Term{}, r.strBytes(a)...), r.strBytes(b)...))
		case token.LSS, token.LEQ, token.GTR, token.GEQ:
			sa, ok1 := r.strConcrete(a)
			sb, ok2 := r.strConcrete(b)
			if !ok1 || !ok2 {
				panic(engineErr("ordering of symbolic strings"))
			}
			switch op {
			case token.LSS:
				return c.Bool(sa < sb)
			case token.LEQ:
				return c.Bool(sa <= sb)
			case token.GTR:
				return c.Bool(sa > sb)
			default:
				return c.Bool(sa >= sb)
			}
		}
	}
	panic(engineErr("binop %v on %T", op, x))
}

func (r *Run) shift(op token.Token, a, b *Term, signed bool, yt types.Type) Value {
	c := r.ctx
	w := a.Sort.W
	_, ysigned, _ := isIntType(yt)
	if ysigned {
		neg := c.BVSlt(b, c.BV(b.Sort.W, 0))
		if r.branch(neg) {
			panic(goPanic{kind: "shift", msg: "negative shift amount"})
		}
	}
	// bring the count to the width of a, saturating
	var cnt *Term
	var big *Term // count >= w
	if b.Sort.W > w {
		big = c.BVUle(c.BV(b.Sort.W, uint64(w)), b)
		cnt = c.Extract(b, w-1, 0)
	} else {
		cnt = c.ZeroExt(b, w-b.Sort.W)
		big = c.BVUle(c.BV(w, uint64(w)), cnt)
	}
	var res, over *Term
	switch {
	case op == token.SHL:
		res, over = c.BVShl(a, cnt), c.BV(w, 0)
	case signed:
		res = c.BVAshr(a, cnt)
		over = c.BVAshr(a, c.BV(w, uint64(w-1)))
	default:
		res, over = c.BVLshr(a, cnt), c.BV(w, 0)
	}
	return c.Ite(big, over, res)
}

// ---------------------------------------------------------------- convert

func (r *Run) convert(v Value, from, to types.Type) Value {
	c := r.ctx
	fu, tu := from.Underlying(), to.Underlying()
	switch t := tu.(type) {
	case *types.Basic:
		switch {
		case t.Info()&types.IsInteger != 0:
			w, _ := intWidth(t)
			switch x := v.(type) {
			case *Term:
				_, fsigned, _ := isIntType(from)
				return c.Resize(x, w, fsigned)
			case FloatV:
				_, tsigned := intWidth(t)
				if tsigned {
					return c.BV(w, uint64(int64(x)))
				}
				return c.BV(w, uint64(x))
			case PtrV: // unsafe.Pointer -> uintptr
				panic(engineErr("pointer to integer conversion"))
			}
		case t.Info()&types.IsFloat != 0:
			switch x := v.(type) {
			case FloatV:
				if t.Kind() == types.Float32 {
					return FloatV(float32(x))
				}
				return x
			case *Term:
				if !x.IsConst() {
					x = r.ctx.BV(x.Sort.W, r.concretize(x, 64, "integer converted to float"))
				}
				_, fsigned, _ := isIntType(from)
				if fsigned {
					return FloatV(float64(signExtend(x.CV, x.Sort.W)))
				}
				return FloatV(float64(x.CV))
			}
		case t.Info()&types.IsString != 0:
			switch x := v.(type) {
			case *StrV:
				return x
			case SliceV:
				// []byte or []rune
				if eb, ok := fu.(*types.Slice).Elem().Underlying().(*types.Basic); ok && eb.Kind() == types.Int32 {
					var sb strings.Builder
					for i := 0; i < x.len; i++ {
						sb.WriteRune(rune(r.concreteInt(r.sliceElem(x, i), "rune")))
					}
					return &StrV{s: sb.String()}
				}
				x = r.concreteSlice(x)
				bs := make([]*Term, x.len)
				for i := range bs {
					bs[i] = r.sliceElem(x, i).(*Term)
				}
				return r.strFromBytes(bs)
			case *Term: // integer -> string (rune)
				return &StrV{s: string(rune(r.concreteInt(x, "rune")))}
			}
		case t.Kind() == types.UnsafePointer:
			return v
		}
	case *types.Slice:
		if s, ok := v.(*StrV); ok {
			eb := t.Elem().Underlying().(*types.Basic)
			if eb.Kind() == types.Int32 {
				str := r.mustStr(s)
				rs := []rune(str)
				vals := make([]Value, len(rs))
				for i, ru := range rs {
					vals[i] = c.BV(32, uint64(ru))
				}
				return r.newSlice(t.Elem(), vals, len(vals))
			}
			bs := r.strBytes(s)
			vals := make([]Value, len(bs))
			for i, b := range bs {
				vals[i] = b
			}
			return r.newSlice(t.Elem(), vals, len(vals))
		}
		return v
	case *types.Pointer:
		return v
	}
	if types.Identical(fu, tu) {
		return v
	}
	panic(engineErr("convert %v -> %v (%T)", from, to, v))
}

// ---------------------------------------------------------------- slices

func (r *Run) newSlice(elem types.Type, vals []Value, capacity int) SliceV {
	if capacity < len(vals) {
		capacity = len(vals)
	}
	arr := &ArrayV{e: make([]Value, capacity)}
	copy(arr.e, vals)
	if capacity > len(vals) {
		for i := len(vals); i < capacity; i++ {
			arr.e[i] = r.zero(elem)
		}
	}
	o := r.newObject(types.NewArray(elem, int64(capacity)), arr)
	return SliceV{base: PtrV{obj: o}, off: 0, len: len(vals), cap: capacity}
}

func (r *Run) sliceArr(s SliceV) *ArrayV {
	return (*r.slot(s.base)).(*ArrayV)
}

func (r *Run) sliceElem(s SliceV, i int) Value {
	return r.sliceArr(s).e[s.off+i]
}

func (r *Run) sliceLenTerm(s SliceV) *Term {
	if s.sym != nil {
		return s.sym
	}
	return r.intTerm(int64(s.len))
}

// concreteSlice decides the length of a symbolic-length slice whose whole
// contents are needed (forks if several values are still feasible).
func (r *Run) concreteSlice(s SliceV) SliceV {
	if s.sym == nil {
		return s
	}
	l := int(r.concretize(s.sym, 4096, "length of a symbolic-length slice"))
	if l > 0 {
		r.materialise(s, l-1)
	}
	return SliceV{base: s.base, off: s.off, len: l, cap: l}
}

func (r *Run) byteSliceTerms(v Value) []*Term {
	s := r.concreteSlice(v.(SliceV))
	out := make([]*Term, s.len)
	if s.len == 0 {
		return out
	}
	arr := r.sliceArr(s)
	for i := range out {
		out[i] = arr.e[s.off+i].(*Term)
	}
	return out
}

func (r *Run) bytesToSlice(bs []*Term) SliceV {
	vals := make([]Value, len(bs))
	for i, b := range bs {
		vals[i] = b
	}
	return r.newSlice(types.Typ[types.Uint8], vals, len(vals))
}

func (r *Run) execMakeSlice(fr *Frame, x *ssa.MakeSlice) {
	elem := x.Type().Underlying().(*types.Slice).Elem()
	lt := r.get(fr, x.Len).(*Term)
	ct := r.get(fr, x.Cap).(*Term)
	_, ls, _ := isIntType(x.Len.Type())
	_, cs, _ := isIntType(x.Cap.Type())
	lt = r.ctx.Resize(lt, 64, ls)
	ct = r.ctx.Resize(ct, 64, cs)
	if lt.IsConst() && ct.IsConst() {
		n, cp := signExtend(lt.CV, 64), signExtend(ct.CV, 64)
		if n < 0 || cp < n || n > 1<<44 {
			panic(goPanic{kind: "makeslice", msg: "makeslice: len out of range"})
		}
		r.noteMake(ct)
		if n > maxConcreteAlloc && n == cp {
			// a huge but legal allocation: keep the length as a (constant) term
			// and materialise elements on demand
			s := r.newSlice(elem, nil, 16)
			s.len = 16
			s.sym = lt
			r.set(fr, x, s)
			return
		}
		s := r.newSlice(elem, nil, int(cp))
		s.len = int(n)
		r.set(fr, x, s)
		return
	}
	if lt != ct {
		panic(engineErr("make with symbolic len and different cap"))
	}
	r.set(fr, x, r.makeSymSlice(elem, lt))
}

const maxConcreteAlloc = 1 << 16

// noteMake records the lengths passed to make, per call site (distinct
// terms only; constants below 4096 are ignored).
func (r *Run) noteMake(n *Term) {
	if n.IsConst() && signExtend(n.CV, 64) <= 4096 {
		return
	}
	site := ""
	if r.cur != nil && len(r.cur.stack) > 0 {
		site = r.cur.stack[len(r.cur.stack)-1].info.name
	}
	if r.makeSites == nil {
		r.makeSites = map[string]map[int]*Term{}
	}
	m := r.makeSites[site]
	if m == nil {
		m = map[int]*Term{}
		r.makeSites[site] = m
	}
	m[n.id] = n
}

// maxMakeTerm returns the maximum of the recorded lengths at the selected sites.
func (r *Run) maxMakeTerm(sel func(site string) bool) *Term {
	c := r.ctx
	acc := c.BV(64, 0)
	names := make([]string, 0, len(r.makeSites))
	for s := range r.makeSites {
		names = append(names, s)
	}
	sort.Strings(names)
	for _, s := range names {
		if !sel(s) {
			continue
		}
		ids := make([]int, 0, len(r.makeSites[s]))
		for id := range r.makeSites[s] {
			ids = append(ids, id)
		}
		sort.Ints(ids)
		for _, id := range ids {
			n := r.makeSites[s][id]
			acc = c.Ite(c.BVSlt(acc, n), n, acc)
		}
	}
	return acc
}

// makeSymSlice implements make([]T, n) for a symbolic n: a panic path for
// n < 0 (or beyond the allocation limit), exact case split for 0..k, and one
// class n > k with k+1 materialised elements.
func (r *Run) makeSymSlice(elem types.Type, n *Term) SliceV {
	c := r.ctx
	neg := c.BVSlt(n, c.BV(64, 0))
	if r.branch(neg) {
		panic(goPanic{kind: "makeslice", msg: "makeslice: len out of range"})
	}
	r.noteMake(n)
	k := r.eng.symLenK
	if v, ok := r.eng.bounds["symLenK"]; ok {
		k = v
	}
	// one decision: either n > k, or one of the feasible exact values 0..k
	d := r.decide(func() []int64 {
		var alts []int64
		small := c.BVSle(n, c.BV(64, uint64(k)))
		var block []*Term
		for {
			q := append([]*Term{small}, block...)
			if r.check(q...) != Sat {
				break
			}
			m, err := r.solver.ModelValues(c.varsOf(n))
			if err != nil {
				panic(engineErr("model: %v", err))
			}
			v := evalBV(n, m)
			alts = append(alts, int64(v))
			block = append(block, c.Not(c.Eq(n, c.BV(64, v))))
		}
		if r.check(c.Not(small)) == Sat {
			alts = append(alts, -1)
		}
		return alts
	})
	if d >= 0 {
		r.addPC(c.Eq(n, c.BV(64, uint64(d))))
		s := r.newSlice(elem, nil, int(d))
		s.len = int(d)
		return s
	}
	r.addPC(c.BVSlt(c.BV(64, uint64(k)), n))
	// n > k
	s := r.newSlice(elem, nil, k+1)
	s.len = k + 1
	s.sym = n
	return s
}

// materialise makes sure element i of a symbolic-length slice exists in its
// backing array (elements beyond the initially materialised ones are created
// on demand; the loop that touches them forks at its own length comparison and
// is bounded by the path and step budgets).
func (r *Run) materialise(s SliceV, i int) {
	arr := r.sliceArr(s)
	need := s.off + i + 1
	if need > len(arr.e) {
		if need > r.eng.maxSymElems {
			panic(engineErr("unwinding bound: element %d of a symbolic-length slice", i))
		}
		et := s.base.obj.typ.Underlying().(*types.Array).Elem()
		if len(s.base.path) != 0 {
			panic(engineErr("symbolic-length slice inside an aggregate"))
		}
		for len(arr.e) < need {
			arr.e = append(arr.e, r.zero(et))
		}
	}
}

func (r *Run) boundsPanic(kind, msg string) {
	panic(goPanic{kind: kind, msg: msg})
}

// checkIndex checks 0 <= i < n for an index term (64-bit signed view) and
// returns the concrete index.
func (r *Run) checkIndex(it *Term, signed bool, n int, symN *Term) int {
	c := r.ctx
	i64 := c.Resize(it, 64, signed)
	if i64.IsConst() && symN == nil {
		i := signExtend(i64.CV, 64)
		if i < 0 || i >= int64(n) {
			r.boundsPanic("index", fmt.Sprintf("index out of range [%d] with length %d", i, n))
		}
		return int(i)
	}
	var lenT *Term
	if symN != nil {
		lenT = symN
	} else {
		lenT = c.BV(64, uint64(n))
	}
	inb := c.And(c.BVSle(c.BV(64, 0), i64), c.BVSlt(i64, lenT))
	if !r.branch(inb) {
		r.boundsPanic("index", "index out of range (symbolic index)")
	}
	if i64.IsConst() {
		// in bounds of the true (symbolic) length; the caller materialises the element
		return int(signExtend(i64.CV, 64))
	}
	if symN != nil {
		panic(engineErr("symbolic index into symbolic-length slice"))
	}
	v := r.concretize(i64, 64, "index")
	return int(v)
}

func (r *Run) execIndexAddr(fr *Frame, x *ssa.IndexAddr) {
	it := r.get(fr, x.Index).(*Term)
	_, signed, _ := isIntType(x.Index.Type())
	switch b := r.get(fr, x.X).(type) {
	case SliceV:
		i := r.checkIndex(it, signed, b.len, b.sym)
		if b.sym != nil {
			r.materialise(b, i)
		}
		r.set(fr, x, b.base.child(b.off+i))
	case PtrV:
		if b.IsNil() {
			panic(goPanic{kind: "nil-deref", msg: "invalid memory address or nil pointer dereference"})
		}
		n := int(x.X.Type().Underlying().(*types.Pointer).Elem().Underlying().(*types.Array).Len())
		i := r.checkIndex(it, signed, n, nil)
		r.set(fr, x, b.child(i))
	default:
		panic(engineErr("IndexAddr on %T", b))
	}
}

func (r *Run) execIndex(fr *Frame, x *ssa.Index) {
	it := r.get(fr, x.Index).(*Term)
	_, signed, _ := isIntType(x.Index.Type())
	switch b := r.get(fr, x.X).(type) {
	case *ArrayV:
		i := r.checkIndex(it, signed, len(b.e), nil)
		r.set(fr, x, copyVal(b.e[i]))
	case *StrV:
		bs := r.strBytes(b)
		i := r.checkIndex(it, signed, len(bs), nil)
		r.set(fr, x, bs[i])
	default:
		panic(engineErr("Index on %T", b))
	}
}

func (r *Run) execSlice(fr *Frame, x *ssa.Slice) {
	c := r.ctx
	bound := func(v ssa.Value) (*Term, bool) {
		if v == nil {
			return nil, false
		}
		t := r.get(fr, v).(*Term)
		_, signed, _ := isIntType(v.Type())
		return c.Resize(t, 64, signed), true
	}
	lo, hasLo := bound(x.Low)
	hi, hasHi := bound(x.High)
	mx, hasMax := bound(x.Max)
	conc := func(t *Term, what string) int {
		if t.IsConst() {
			return int(signExtend(t.CV, 64))
		}
		return int(signExtend(r.concretize(t, 64, what), 64))
	}
	switch b := r.get(fr, x.X).(type) {
	case *StrV:
		bs := r.strBytes(b)
		l, h := 0, len(bs)
		if hasLo {
			l = conc(lo, "slice low")
		}
		if hasHi {
			h = conc(hi, "slice high")
		}
		if l < 0 || h > len(bs) || l > h {
			r.boundsPanic("slice", fmt.Sprintf("slice bounds out of range [%d:%d] with length %d", l, h, len(bs)))
		}
		if b.sym == nil {
			r.set(fr, x, &StrV{s: b.s[l:h]})
		} else {
			r.set(fr, x, r.strFromBytes(bs[l:h]))
		}
	case SliceV:
		r.set(fr, x, r.sliceOp(b, lo, hi, mx, hasLo, hasHi, hasMax))
	case PtrV:
		if b.IsNil() {
			panic(goPanic{kind: "nil-deref", msg: "slice of nil array pointer"})
		}
		n := int(x.X.Type().Underlying().(*types.Pointer).Elem().Underlying().(*types.Array).Len())
		s := SliceV{base: b, off: 0, len: n, cap: n}
		r.set(fr, x, r.sliceOp(s, lo, hi, mx, hasLo, hasHi, hasMax))
	default:
		panic(engineErr("Slice on %T", b))
	}
}

func (r *Run) sliceOp(s SliceV, lo, hi, mx *Term, hasLo, hasHi, hasMax bool) SliceV {
	c := r.ctx
	if s.sym != nil {
		return r.sliceOpSym(s, lo, hi, hasLo, hasHi, hasMax)
	}
	// symbolic bounds: check range symbolically, then concretise
	zero := c.BV(64, 0)
	capT := c.BV(64, uint64(s.cap))
	l, h, m := zero, c.BV(64, uint64(s.len)), capT
	if hasLo {
		l = lo
	}
	if hasHi {
		h = hi
	}
	if hasMax {
		m = mx
	}
	ok := c.And(c.BVSle(zero, l), c.BVSle(l, h), c.BVSle(h, m), c.BVSle(m, capT))
	if !r.branch(ok) {
		r.boundsPanic("slice", "slice bounds out of range")
	}
	li := int(r.concretize(l, 64, "slice low"))
	hi2 := int(r.concretize(h, 64, "slice high"))
	mi := int(r.concretize(m, 64, "slice max"))
	if s.IsNil() {
		return SliceV{}
	}
	return SliceV{base: s.base, off: s.off + li, len: hi2 - li, cap: mi - li}
}

// sliceOpSym handles s[lo:hi] for a symbolic-length s with concrete bounds.
func (r *Run) sliceOpSym(s SliceV, lo, hi *Term, hasLo, hasHi, hasMax bool) SliceV {
	c := r.ctx
	if hasMax {
		panic(engineErr("3-index slice of symbolic-length slice"))
	}
	l := 0
	if hasLo {
		if !lo.IsConst() {
			panic(engineErr("symbolic low bound on symbolic-length slice"))
		}
		l = int(signExtend(lo.CV, 64))
	}
	if l < 0 {
		r.boundsPanic("slice", "slice bounds out of range")
	}
	if hasHi {
		// hi must be <= true length
		ok := c.And(c.BVSle(c.BV(64, uint64(l)), hi), c.BVSle(hi, s.sym))
		if !r.branch(ok) {
			r.boundsPanic("slice", "slice bounds out of range")
		}
		if hi.IsConst() {
			h := int(signExtend(hi.CV, 64))
			if h > 0 {
				r.materialise(s, h-1)
			}
			return SliceV{base: s.base, off: s.off + l, len: h - l, cap: h - l}
		}
		if hi == s.sym {
			return r.symTail(s, l)
		}
		panic(engineErr("symbolic high bound on symbolic-length slice"))
	}
	// s[l:]: l <= true length required
	if !r.branch(c.BVSle(c.BV(64, uint64(l)), s.sym)) {
		r.boundsPanic("slice", "slice bounds out of range")
	}
	return r.symTail(s, l)
}

// symTail returns s[l:] of a symbolic-length slice.
func (r *Run) symTail(s SliceV, l int) SliceV {
	c := r.ctx
	nl := s.len - l
	if nl < 0 {
		nl = 0
	}
	return SliceV{base: s.base, off: s.off + l, len: nl, cap: nl, sym: c.BVSub(s.sym, c.BV(64, uint64(l)))}
}

// ---------------------------------------------------------------- maps

func (r *Run) mapFind(m *MapV, key Value) int {
	if m == nil {
		return -1
	}
	for i, k := range m.keys {
		eq := r.equal(k, key)
		if r.branch(eq) {
			return i
		}
	}
	return -1
}

func (r *Run) mapStore(m *MapV, key, val Value) {
	if i := r.mapFind(m, key); i >= 0 {
		m.vals[i] = copyVal(val)
		return
	}
	m.keys = append(m.keys, copyVal(key))
	m.vals = append(m.vals, copyVal(val))
}

func (r *Run) mapDelete(m *MapV, key Value) {
	if i := r.mapFind(m, key); i >= 0 {
		m.keys = append(m.keys[:i:i], m.keys[i+1:]...)
		m.vals = append(m.vals[:i:i], m.vals[i+1:]...)
	}
}

func (r *Run) execLookup(fr *Frame, x *ssa.Lookup) {
	switch m := r.get(fr, x.X).(type) {
	case *MapV:
		et := x.X.Type().Underlying().(*types.Map).Elem()
		i := r.mapFind(m, r.get(fr, x.Index))
		var v Value
		if i >= 0 {
			v = copyVal(m.vals[i])
		} else {
			v = r.zero(et)
		}
		if x.CommaOk {
			r.set(fr, x, TupleV{v, r.ctx.Bool(i >= 0)})
		} else {
			r.set(fr, x, v)
		}
	case *StrV:
		bs := r.strBytes(m)
		it := r.get(fr, x.Index).(*Term)
		_, signed, _ := isIntType(x.Index.Type())
		i := r.checkIndex(it, signed, len(bs), nil)
		r.set(fr, x, bs[i])
	default:
		panic(engineErr("Lookup on %T", m))
	}
}

type rangeIter struct {
	m    *MapV
	keys []Value
	vals []Value
	str  string
	isS  bool
	pos  int
}

func (r *Run) execRange(fr *Frame, x *ssa.Range) {
	switch m := r.get(fr, x.X).(type) {
	case *MapV:
		it := &rangeIter{m: m}
		if m != nil {
			it.keys = append(it.keys, m.keys...)
			it.vals = append(it.vals, m.vals...)
		}
		r.set(fr, x, it)
	case *StrV:
		r.set(fr, x, &rangeIter{isS: true, str: r.mustStr(m)})
	default:
		panic(engineErr("Range on %T", m))
	}
}

func (r *Run) execNext(fr *Frame, x *ssa.Next) {
	it := r.get(fr, x.Iter).(*rangeIter)
	tup := x.Type().(*types.Tuple)
	if it.isS {
		if it.pos >= len(it.str) {
			r.set(fr, x, TupleV{r.ctx.Bool(false), r.intTerm(0), r.ctx.BV(32, 0)})
			return
		}
		ru, sz := utf8.DecodeRuneInString(it.str[it.pos:])
		r.set(fr, x, TupleV{r.ctx.Bool(true), r.intTerm(int64(it.pos)), r.ctx.BV(32, uint64(ru))})
		it.pos += sz
		return
	}
	for it.pos < len(it.keys) {
		k := it.keys[it.pos]
		it.pos++
		// skip entries deleted during iteration (identity check on key slot)
		live := false
		for _, mk := range it.m.keys {
			if sameKeyIdentity(mk, k) {
				live = true
				break
			}
		}
		if !live {
			continue
		}
		// current value
		var v Value
		for i, mk := range it.m.keys {
			if sameKeyIdentity(mk, k) {
				v = it.m.vals[i]
			}
		}
		kv, vv := Value(copyVal(k)), Value(copyVal(v))
		if isInvalidType(tup.At(1).Type()) {
			kv = nil
		}
		if isInvalidType(tup.At(2).Type()) {
			vv = nil
		}
		r.set(fr, x, TupleV{r.ctx.Bool(true), kv, vv})
		return
	}
	var zk, zv Value
	if !isInvalidType(tup.At(1).Type()) {
		zk = r.zero(tup.At(1).Type())
	}
	if !isInvalidType(tup.At(2).Type()) {
		zv = r.zero(tup.At(2).Type())
	}
	r.set(fr, x, TupleV{r.ctx.Bool(false), zk, zv})
}

func isInvalidType(t types.Type) bool {
	b, ok := t.(*types.Basic)
	return ok && b.Kind() == types.Invalid
}

// sameKeyIdentity: keys in a map are distinct values; during iteration we
// identify an entry by Go-level identity of the stored key value.
func sameKeyIdentity(a, b Value) bool {
	switch x := a.(type) {
	case *Term:
		y, ok := b.(*Term)
		return ok && x == y
	case *StrV:
		y, ok := b.(*StrV)
		return ok && (x == y || (x.sym == nil && y.sym == nil && !x.opaque && !y.opaque && x.s == y.s))
	case *StructV:
		y, ok := b.(*StructV)
		if !ok || len(x.f) != len(y.f) {
			return false
		}
		for i := range x.f {
			if !sameKeyIdentity(x.f[i], y.f[i]) {
				return false
			}
		}
		return true
	case *ArrayV:
		y, ok := b.(*ArrayV)
		if !ok || len(x.e) != len(y.e) {
			return false
		}
		for i := range x.e {
			if !sameKeyIdentity(x.e[i], y.e[i]) {
				return false
			}
		}
		return true
	case IfaceV:
		y, ok := b.(IfaceV)
		if !ok {
			return false
		}
		if x.t == nil || y.t == nil {
			return x.t == nil && y.t == nil
		}
		return types.Identical(x.t, y.t) && sameKeyIdentity(x.v, y.v)
	case PtrV:
		y, ok := b.(PtrV)
		return ok && x.same(y)
	case FloatV:
		y, ok := b.(FloatV)
		return ok && x == y
	}
	return a == b
}

// ---------------------------------------------------------------- builtins

func (r *Run) callBuiltin(g *Goroutine, name string, args []Value, call *ssa.CallCommon) Value {
	c := r.ctx
	switch name {
	case "builtin:len":
		switch x := args[0].(type) {
		case SliceV:
			return r.sliceLenTerm(x)
		case *StrV:
			if x.opaque {
				panic(engineErr("len of an opaque (formatted) string"))
			}
			return r.intTerm(int64(x.Len()))
		case *MapV:
			if x == nil {
				return r.intTerm(0)
			}
			return r.intTerm(int64(len(x.keys)))
		case *ArrayV:
			return r.intTerm(int64(len(x.e)))
		case PtrV: // pointer to array
			n := call.Args[0].Type().Underlying().(*types.Pointer).Elem().Underlying().(*types.Array).Len()
			return r.intTerm(n)
		case *ChanV:
			if x == nil {
				return r.intTerm(0)
			}
			return r.intTerm(int64(len(x.buf)))
		}
	case "builtin:cap":
		switch x := args[0].(type) {
		case SliceV:
			if x.sym != nil {
				return x.sym
			}
			return r.intTerm(int64(x.cap))
		case *ArrayV:
			return r.intTerm(int64(len(x.e)))
		case PtrV:
			n := call.Args[0].Type().Underlying().(*types.Pointer).Elem().Underlying().(*types.Array).Len()
			return r.intTerm(n)
		case *ChanV:
			if x == nil {
				return r.intTerm(0)
			}
			return r.intTerm(int64(x.cap))
		}
	case "builtin:append":
		return r.builtinAppend(args, call)
	case "builtin:copy":
		return r.builtinCopy(args)
	case "builtin:delete":
		if m := args[0].(*MapV); m != nil {
			r.mapDelete(m, args[1])
		}
		return nil
	case "builtin:clear":
		switch x := args[0].(type) {
		case *MapV:
			if x != nil {
				x.keys, x.vals = nil, nil
			}
		case SliceV:
			if call == nil {
				panic(engineErr("clear of a slice without static type"))
			}
			et := call.Args[0].Type().Underlying().(*types.Slice).Elem()
			x = r.concreteSlice(x)
			if x.len > 0 {
				arr := r.sliceArr(x)
				for i := 0; i < x.len; i++ {
					arr.e[x.off+i] = r.zero(et)
				}
			}
		default:
			panic(engineErr("clear on %T", x))
		}
		return nil
	case "builtin:close":
		r.chanClose(args[0].(*ChanV))
		return nil
	case "builtin:panic":
		panic(goPanic{kind: "explicit", msg: r.panicMsg(args[0]), val: args[0]})
	case "builtin:recover":
		if g.pending != nil {
			p := g.pending
			g.pending = nil
			r.notes = append(r.notes, "recovered panic: "+p.p.msg+"\n"+p.stack)
			return r.panicValue(p.p)
		}
		return IfaceV{}
	case "builtin:print", "builtin:println":
		return nil
	case "builtin:min", "builtin:max":
		acc := args[0]
		_, signed, isInt := isIntType(call.Args[0].Type())
		if !isInt {
			panic(engineErr("min/max on non-integers"))
		}
		for _, a := range args[1:] {
			x, y := acc.(*Term), a.(*Term)
			var lt *Term
			if signed {
				lt = c.BVSlt(x, y)
			} else {
				lt = c.BVUlt(x, y)
			}
			if name == "builtin:min" {
				acc = c.Ite(lt, x, y)
			} else {
				acc = c.Ite(lt, y, x)
			}
		}
		return acc
	case "builtin:ssa:wrapnilchk":
		if p, ok := args[0].(PtrV); ok && p.IsNil() {
			panic(goPanic{kind: "nil-deref", msg: "value method called using nil pointer"})
		}
		return args[0]
	}
	panic(engineErr("unsupported builtin %s", name))
}

func (r *Run) panicValue(p goPanic) Value {
	if p.val != nil {
		return p.val
	}
	// runtime error: represent as a runtime.Error-like string value
	return IfaceV{t: types.Typ[types.String], v: &StrV{s: "runtime error: " + p.msg}}
}

func (r *Run) builtinAppend(args []Value, call *ssa.CallCommon) Value {
	s := args[0].(SliceV)
	var add []Value
	switch x := args[1].(type) {
	case SliceV:
		x = r.concreteSlice(x)
		for i := 0; i < x.len; i++ {
			add = append(add, copyVal(r.sliceElem(x, i)))
		}
	case *StrV:
		for _, b := range r.strBytes(x) {
			add = append(add, b)
		}
	default:
		panic(engineErr("append arg %T", x))
	}
	if s.sym != nil {
		panic(engineErr("append to symbolic-length slice"))
	}
	if len(add) == 0 {
		return s
	}
	if !s.IsNil() && s.len+len(add) <= s.cap {
		arr := r.sliceArr(s)
		for i, v := range add {
			arr.e[s.off+s.len+i] = v
		}
		return SliceV{base: s.base, off: s.off, len: s.len + len(add), cap: s.cap}
	}
	elem := call.Args[0].Type().Underlying().(*types.Slice).Elem()
	newCap := s.cap * 2
	if newCap < s.len+len(add) {
		newCap = s.len + len(add)
	}
	vals := make([]Value, 0, s.len+len(add))
	for i := 0; i < s.len; i++ {
		vals = append(vals, copyVal(r.sliceElem(s, i)))
	}
	vals = append(vals, add...)
	return r.newSlice(elem, vals, newCap)
}

func (r *Run) builtinCopy(args []Value) Value {
	dst := args[0].(SliceV)
	var src []Value
	var srcSym *Term
	switch x := args[1].(type) {
	case SliceV:
		x = r.concreteSlice(x)
		for i := 0; i < x.len; i++ {
			src = append(src, copyVal(r.sliceElem(x, i)))
		}
	case *StrV:
		for _, b := range r.strBytes(x) {
			src = append(src, b)
		}
	}
	if dst.sym == nil && srcSym == nil {
		n := dst.len
		if len(src) < n {
			n = len(src)
		}
		if n > 0 {
			arr := r.sliceArr(dst)
			for i := 0; i < n; i++ {
				arr.e[dst.off+i] = src[i]
			}
		}
		return r.intTerm(int64(n))
	}
	if srcSym != nil {
		panic(engineErr("copy from a symbolic-length slice"))
	}
	// dst has symbolic length L (> dst.len-1); n = min(L, len(src)).
	c := r.ctx
	ns := len(src)
	if ns > dst.len {
		// is L >= ns? otherwise L is one of dst.len..ns-1: fork on its value
		if !r.branch(c.BVSle(c.BV(64, uint64(ns)), dst.sym)) {
			l := int(r.concretize(dst.sym, 4096, "length of a symbolic-length destination"))
			r.materialise(dst, l-1)
			arr := r.sliceArr(dst)
			for i := 0; i < l; i++ {
				arr.e[dst.off+i] = src[i]
			}
			return r.intTerm(int64(l))
		}
	}
	if ns > 0 {
		r.materialise(dst, ns-1)
	}
	arr := r.sliceArr(dst)
	for i := 0; i < ns; i++ {
		arr.e[dst.off+i] = src[i]
	}
	return r.intTerm(int64(ns))
}

var _ = math.MaxInt64
