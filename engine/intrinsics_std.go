package main

import (
	"encoding/hex"
	"fmt"
	"go/types"
	"math"
	"regexp"
	"strconv"
	"strings"

	"golang.org/x/tools/go/ssa"
)

// nativeArg converts an interface-boxed engine value to a native Go value for
// formatting; ok=false if it is symbolic or of a kind we do not format.
func (r *Run) nativeArg(v Value) (interface{}, bool) {
	i, ok := v.(IfaceV)
	if !ok {
		return nil, false
	}
	if i.t == nil {
		return nil, true
	}
	// types with formatting methods are not formatted natively
	ms := r.eng.prog.MethodSets.MethodSet(i.t)
	for _, n := range []string{"String", "Error", "Format", "GoString"} {
		if ms.Lookup(nil, n) != nil {
			return nil, false
		}
	}
	switch u := i.t.Underlying().(type) {
	case *types.Basic:
		switch x := i.v.(type) {
		case *Term:
			if !x.IsConst() {
				return nil, false
			}
			if u.Info()&types.IsBoolean != 0 {
				return x.CB, true
			}
			w, signed := intWidth(u)
			if signed {
				s := signExtend(x.CV, w)
				switch w {
				case 8:
					return int8(s), true
				case 16:
					return int16(s), true
				case 32:
					return int32(s), true
				}
				if u.Kind() == types.Int {
					return int(s), true
				}
				return s, true
			}
			switch w {
			case 8:
				return uint8(x.CV), true
			case 16:
				return uint16(x.CV), true
			case 32:
				return uint32(x.CV), true
			}
			if u.Kind() == types.Uint {
				return uint(x.CV), true
			}
			return x.CV, true
		case *StrV:
			s, ok := r.strConcrete(x)
			return s, ok
		case FloatV:
			return float64(x), true
		}
	case *types.Slice:
		if b, ok := u.Elem().Underlying().(*types.Basic); ok && b.Kind() == types.Uint8 {
			s := i.v.(SliceV)
			if s.sym != nil {
				return nil, false
			}
			out := make([]byte, s.len)
			for k := 0; k < s.len; k++ {
				t := r.sliceElem(s, k).(*Term)
				if !t.IsConst() {
					return nil, false
				}
				out[k] = byte(t.CV)
			}
			return out, true
		}
	case *types.Array:
		if b, ok := u.Elem().Underlying().(*types.Basic); ok && b.Kind() == types.Uint8 {
			a := i.v.(*ArrayV)
			out := make([]byte, len(a.e))
			for k := range out {
				t := a.e[k].(*Term)
				if !t.IsConst() {
					return nil, false
				}
				out[k] = byte(t.CV)
			}
			return out, true
		}
	}
	return nil, false
}

func (r *Run) variadic(v Value) []Value {
	s := v.(SliceV)
	out := make([]Value, s.len)
	for i := range out {
		out[i] = r.sliceElem(s, i)
	}
	return out
}

// format implements Sprintf-like formatting: exact when everything is
// concrete, an opaque string otherwise.
func (r *Run) format(format *StrV, args []Value, mode string) *StrV {
	nat := make([]interface{}, len(args))
	for i, a := range args {
		n, ok := r.nativeArg(a)
		if !ok {
			return &StrV{opaque: true}
		}
		nat[i] = n
	}
	switch mode {
	case "f":
		f, ok := r.strConcrete(format)
		if !ok {
			return &StrV{opaque: true}
		}
		return &StrV{s: fmt.Sprintf(f, nat...)}
	case "ln":
		return &StrV{s: fmt.Sprintln(nat...)}
	}
	return &StrV{s: fmt.Sprint(nat...)}
}

func registerStd(e *Engine, simple func(string, func(*Run, []Value) Value)) {
	in := e.intrinsics
	simple("fmt.Sprintf", func(r *Run, a []Value) Value { return r.format(a[0].(*StrV), r.variadic(a[1]), "f") })
	simple("fmt.Sprint", func(r *Run, a []Value) Value { return r.format(nil, r.variadic(a[0]), "") })
	simple("fmt.Sprintln", func(r *Run, a []Value) Value { return r.format(nil, r.variadic(a[0]), "ln") })
	for _, n := range []string{"fmt.Printf", "fmt.Println", "fmt.Print", "fmt.Fprintf", "fmt.Fprintln", "fmt.Fprint"} {
		simple(n, func(r *Run, a []Value) Value { return TupleV{r.intTerm(0), IfaceV{}} })
	}
	in["fmt.Errorf"] = func(r *Run, g *Goroutine, fv *FuncV, a []Value, retTo func(Value)) (Value, bool) {
		args := r.variadic(a[1])
		msg := r.format(a[0].(*StrV), args, "f")
		// %w wrapping
		if f, ok := r.strConcrete(a[0].(*StrV)); ok && strings.Contains(f, "%w") {
			// locate the argument consumed by the first %w (verbs counted naively)
			idx := -1
			n := 0
			for i := 0; i+1 < len(f); i++ {
				if f[i] != '%' {
					continue
				}
				if f[i+1] == '%' {
					i++
					continue
				}
				j := i + 1
				for j < len(f) && strings.ContainsRune("+-# 0123456789.*", rune(f[j])) {
					if f[j] == '*' {
						n++
					}
					j++
				}
				if j < len(f) && f[j] == 'w' && idx < 0 {
					idx = n
				}
				n++
				i = j
			}
			if idx >= 0 && idx < len(args) {
				if w, ok := args[idx].(IfaceV); ok && w.t != nil {
					wt := r.eng.pkgs["fmt"].Type("wrapError")
					if wt == nil {
						panic(engineErr("fmt.wrapError not found"))
					}
					o := r.newObject(wt.Type(), &StructV{f: []Value{msg, w}})
					return IfaceV{t: types.NewPointer(wt.Type()), v: PtrV{obj: o}}, true
				}
			}
		}
		en := r.eng.pkgs["errors"].Func("New")
		return r.callSync(g, &FuncV{fn: en}, []Value{msg}), true
	}
	// github.com/pkg/errors stack capture
	simple("github.com/pkg/errors.callers", func(r *Run, a []Value) Value { return PtrV{} })
	simple("(*github.com/pkg/errors.stack).StackTrace", func(r *Run, a []Value) Value { return SliceV{} })
	simple("runtime.Callers", func(r *Run, a []Value) Value { return r.intTerm(0) })

	// std errors.Is / errors.As
	in["errors.Is"] = func(r *Run, g *Goroutine, fv *FuncV, a []Value, retTo func(Value)) (Value, bool) {
		return r.errorsIs(g, a[0].(IfaceV), a[1].(IfaceV)), true
	}
	in["errors.As"] = func(r *Run, g *Goroutine, fv *FuncV, a []Value, retTo func(Value)) (Value, bool) {
		return r.errorsAs(g, a[0].(IfaceV), a[1].(IfaceV)), true
	}
	simple("os.Exit", func(r *Run, a []Value) Value {
		panic(goPanic{kind: "exit", msg: "os.Exit called"})
	})
	for _, n := range []string{"log.Panic", "log.Panicf", "log.Panicln", "log.Fatal", "log.Fatalf", "log.Fatalln"} {
		n := n
		simple(n, func(r *Run, a []Value) Value {
			panic(goPanic{kind: "explicit", msg: n + " called"})
		})
	}
	for _, n := range []string{"log.Print", "log.Printf", "log.Println"} {
		simple(n, func(r *Run, a []Value) Value { return nil })
	}
	simple("math.Ceil", func(r *Run, a []Value) Value { return FloatV(math.Ceil(float64(a[0].(FloatV)))) })
	simple("math.Floor", func(r *Run, a []Value) Value { return FloatV(math.Floor(float64(a[0].(FloatV)))) })
	simple("math.Log10", func(r *Run, a []Value) Value { return FloatV(math.Log10(float64(a[0].(FloatV)))) })

	// strings.Builder (uses unsafe): model on the buf field
	simple("(*strings.Builder).String", func(r *Run, a []Value) Value {
		p := a[0].(PtrV)
		buf := r.load(p.child(1)).(SliceV)
		bs := make([]*Term, buf.len)
		for i := range bs {
			bs[i] = r.sliceElem(buf, i).(*Term)
		}
		return r.strFromBytes(bs)
	})
	simple("(*strings.Builder).copyCheck", func(r *Run, a []Value) Value { return nil })
	simple("internal/bytealg.MakeNoZero", func(r *Run, a []Value) Value {
		n := int(r.concreteInt(a[0], "MakeNoZero length"))
		s := r.newSlice(types.Typ[types.Uint8], nil, n)
		s.len = n
		return s
	})
	simple("internal/bytealg.IndexByteString", func(r *Run, a []Value) Value {
		s := r.mustStr(a[0])
		b := byte(r.concreteInt(a[1], "byte"))
		return r.intTerm(int64(strings.IndexByte(s, b)))
	})
	simple("internal/bytealg.IndexByte", func(r *Run, a []Value) Value {
		bs := r.byteSliceTerms(a[0])
		b := a[1].(*Term)
		for i, x := range bs {
			if r.branch(r.ctx.Eq(x, b)) {
				return r.intTerm(int64(i))
			}
		}
		return r.intTerm(-1)
	})
	simple("internal/bytealg.CountString", func(r *Run, a []Value) Value {
		s := r.mustStr(a[0])
		b := byte(r.concreteInt(a[1], "byte"))
		return r.intTerm(int64(strings.Count(s, string([]byte{b}))))
	})
	simple("internal/bytealg.IndexString", func(r *Run, a []Value) Value {
		return r.intTerm(int64(strings.Index(r.mustStr(a[0]), r.mustStr(a[1]))))
	})
	simple("strings.Index", func(r *Run, a []Value) Value {
		return r.intTerm(int64(strings.Index(r.mustStr(a[0]), r.mustStr(a[1]))))
	})
	simple("strings.Repeat", func(r *Run, a []Value) Value {
		return &StrV{s: strings.Repeat(r.mustStr(a[0]), int(r.concreteInt(a[1], "count")))}
	})
	simple("internal/bytealg.Equal", func(r *Run, a []Value) Value {
		x, y := r.byteSliceTerms(a[0]), r.byteSliceTerms(a[1])
		if len(x) != len(y) {
			return r.ctx.Bool(false)
		}
		parts := make([]*Term, len(x))
		for i := range x {
			parts[i] = r.ctx.Eq(x[i], y[i])
		}
		return r.ctx.And(parts...)
	})
	simple("internal/bytealg.Compare", func(r *Run, a []Value) Value { return r.bytesCompare(a[0], a[1]) })
	simple("bytes.Compare", func(r *Run, a []Value) Value { return r.bytesCompare(a[0], a[1]) })
	simple("encoding/hex.EncodeToString", func(r *Run, a []Value) Value {
		bs := r.byteSliceTerms(a[0])
		if !allConst(bs) {
			return &StrV{opaque: true} // text for logs and error messages only
		}
		buf := make([]byte, len(bs))
		for i, b := range bs {
			buf[i] = byte(b.CV)
		}
		return &StrV{s: hex.EncodeToString(buf)}
	})
	simple("strconv.Itoa", func(r *Run, a []Value) Value {
		return &StrV{s: fmt.Sprint(r.concreteInt(a[0], "Itoa"))}
	})
	in["sort.Slice"] = func(r *Run, g *Goroutine, fv *FuncV, a []Value, retTo func(Value)) (Value, bool) {
		r.sortSlice(g, a[0].(IfaceV).v.(SliceV), a[1].(*FuncV))
		return nil, true
	}
	in["sort.SliceStable"] = in["sort.Slice"]

	// google.golang.org/protobuf: Marshal/Unmarshal are outside every claim; they
	// are modelled by their contract Unmarshal(Marshal(m)) = m through a table
	// of opaque handles (8 distinct concrete bytes per marshalled message).
	simple("perun.network/go-perun/wire/protobuf.file_wire_protobuf_wire_proto_init", func(r *Run, a []Value) Value { return nil })
	simple("google.golang.org/protobuf/proto.Marshal", func(r *Run, a []Value) Value {
		m := a[0].(IfaceV)
		if m.t == nil {
			return TupleV{SliceV{}, IfaceV{}}
		}
		r.pbMsgs = append(r.pbMsgs, copyVal(r.load(m.v.(PtrV))))
		h := uint64(len(r.pbMsgs))
		bs := make([]*Term, 8)
		for i := range bs {
			bs[i] = r.ctx.BV(8, (0xA5A5A5A500000000|h)>>(8*uint(7-i)))
		}
		return TupleV{r.bytesToSlice(bs), IfaceV{}}
	})
	simple("google.golang.org/protobuf/proto.Unmarshal", func(r *Run, a []Value) Value {
		bs := r.byteSliceTerms(a[0])
		m := a[1].(IfaceV)
		bad := func() Value {
			en := r.eng.pkgs["errors"].Func("New")
			return r.callSync(r.cur, &FuncV{fn: en}, []Value{&StrV{s: "proto: cannot parse invalid wire-format data"}})
		}
		if len(bs) != 8 || !allConst(bs) {
			return bad()
		}
		var h uint64
		for _, b := range bs {
			h = h<<8 | b.CV
		}
		if h>>32 != 0xA5A5A5A5 || int(h&0xffffffff) == 0 || int(h&0xffffffff) > len(r.pbMsgs) {
			return bad()
		}
		r.store(m.v.(PtrV), r.pbMsgs[int(h&0xffffffff)-1])
		return IfaceV{}
	})

	// regexp on concrete arguments is evaluated natively
	mkRegexp := func(r *Run, a []Value) PtrV {
		expr := r.mustStr(a[0])
		if _, err := regexp.Compile(expr); err != nil {
			panic(goPanic{kind: "explicit", msg: "regexp: Compile: " + err.Error()})
		}
		rt := r.eng.pkgs["regexp"].Type("Regexp").Type()
		v := r.zero(rt).(*StructV)
		v.f[r.fieldByName(rt, "expr")] = &StrV{s: expr}
		return PtrV{obj: r.newObject(rt, v)}
	}
	simple("regexp.MustCompile", func(r *Run, a []Value) Value { return mkRegexp(r, a) })
	simple("regexp.Compile", func(r *Run, a []Value) Value { return TupleV{mkRegexp(r, a), IfaceV{}} })
	simple("(*regexp.Regexp).MatchString", func(r *Run, a []Value) Value {
		rt := r.eng.pkgs["regexp"].Type("Regexp").Type()
		expr := r.mustStr(r.load(a[0].(PtrV).child(r.fieldByName(rt, "expr"))))
		return r.ctx.Bool(regexp.MustCompile(expr).MatchString(r.mustStr(a[1])))
	})
	simple("strconv.Atoi", func(r *Run, a []Value) Value {
		v, err := strconv.Atoi(r.mustStr(a[0]))
		if err != nil {
			en := r.eng.pkgs["errors"].Func("New")
			return TupleV{r.intTerm(0), r.callSync(r.cur, &FuncV{fn: en}, []Value{&StrV{s: err.Error()}})}
		}
		return TupleV{r.intTerm(int64(v)), IfaceV{}}
	})

	// context / timers: redirected to the plain-Go models in verifrt (interpreted)
	redirect := func(std, model string) {
		in[std] = func(r *Run, g *Goroutine, fv *FuncV, a []Value, retTo func(Value)) (Value, bool) {
			fn := r.eng.pkgs[rtPkg].Func(model)
			if fn == nil {
				panic(engineErr("model %s not found", model))
			}
			r.invoke(g, &FuncV{fn: fn}, a, retTo)
			return deferredResult{}, true
		}
	}
	redirect("context.WithCancel", "WithCancelModel")
	redirect("context.WithTimeout", "WithTimeoutModel")
	redirect("context.WithDeadline", "WithDeadlineModel")
	redirect("context.WithValue", "WithValueModel")
	redirect("time.After", "AfterModel")
	redirect("time.NewTimer", "NewTimerModel")
	redirect(rtPkg+".Quiesce", "QuiesceModel")
	// rt.SchedPoint: a voluntary yield (the goroutine is "blocked but ready", so
	// switching away is a wake-up-order decision, not a preemption); the order in
	// which tags are passed is recorded for the native replay.
	in[rtPkg+".SchedPoint"] = func(r *Run, g *Goroutine, fv *FuncV, a []Value, retTo func(Value)) (Value, bool) {
		tag := a[0].(*StrV).s
		g.blocked = &blockInfo{what: "SchedPoint " + tag, yield: true, ready: func() bool { return true }, resume: func() {
			r.schedTrace = append(r.schedTrace, tag)
			if retTo != nil {
				retTo(nil)
			}
		}}
		return deferredResult{}, true
	}
	in[rtPkg+".QuiesceWait"] = func(r *Run, g *Goroutine, fv *FuncV, a []Value, retTo func(Value)) (Value, bool) {
		r.invoke(g, &FuncV{fn: r.eng.pkgs[rtPkg].Func("QuiesceModel")}, nil, retTo)
		return deferredResult{}, true
	}
	in[rtPkg+".QuiesceFor"] = func(r *Run, g *Goroutine, fv *FuncV, a []Value, retTo func(Value)) (Value, bool) {
		r.invoke(g, &FuncV{fn: r.eng.pkgs[rtPkg].Func("QuiesceModel")}, nil, retTo)
		return deferredResult{}, true
	}
	simple("(*time.Timer).Stop", func(r *Run, a []Value) Value { return r.ctx.Bool(false) })
	in[rtPkg+".EngineAfter"] = func(r *Run, g *Goroutine, fv *FuncV, a []Value, retTo func(Value)) (Value, bool) {
		d := r.concreteInt(a[0], "timer duration")
		f := a[1].(*FuncV)
		creator := g
		r.addTimer(d, func() {
			ng := r.newGoroutine("timer")
			r.raceFork(creator, ng)
			r.invoke(ng, f, nil, nil)
			if len(ng.stack) == 0 {
				ng.finished = true
			}
		})
		return nil, true
	}

	// time
	simple("time.Now", func(r *Run, a []Value) Value { return &TimeV{r.ctx.BV(64, uint64(r.now))} })
	simple("time.Unix", func(r *Run, a []Value) Value {
		sec, ns := a[0].(*Term), a[1].(*Term)
		if sec.IsConst() && sec.CV == 0 {
			return &TimeV{ns}
		}
		return &TimeV{r.ctx.BVAdd(r.ctx.BVMul(sec, r.ctx.BV(64, 1_000_000_000)), ns)}
	})
	simple("(time.Time).UnixNano", func(r *Run, a []Value) Value { return a[0].(*TimeV).ns })
	simple("(time.Time).Equal", func(r *Run, a []Value) Value { return r.ctx.Eq(a[0].(*TimeV).ns, a[1].(*TimeV).ns) })
	simple("(time.Time).Sub", func(r *Run, a []Value) Value { return r.ctx.BVSub(a[0].(*TimeV).ns, a[1].(*TimeV).ns) })
	simple("(time.Time).Add", func(r *Run, a []Value) Value {
		return &TimeV{r.ctx.BVAdd(a[0].(*TimeV).ns, a[1].(*Term))}
	})
	simple("(time.Time).IsZero", func(r *Run, a []Value) Value {
		return r.ctx.Eq(a[0].(*TimeV).ns, r.ctx.BV(64, 0))
	})
	simple("(time.Time).Before", func(r *Run, a []Value) Value {
		return r.ctx.BVSlt(a[0].(*TimeV).ns, a[1].(*TimeV).ns)
	})
	simple("(time.Time).After", func(r *Run, a []Value) Value {
		return r.ctx.BVSlt(a[1].(*TimeV).ns, a[0].(*TimeV).ns)
	})
	simple("time.Since", func(r *Run, a []Value) Value {
		return r.ctx.BVSub(r.ctx.BV(64, uint64(r.now)), a[0].(*TimeV).ns)
	})
	simple("time.Until", func(r *Run, a []Value) Value {
		return r.ctx.BVSub(a[0].(*TimeV).ns, r.ctx.BV(64, uint64(r.now)))
	})
	simple("(time.Duration).String", func(r *Run, a []Value) Value { return &StrV{opaque: true} })
	simple("(time.Time).String", func(r *Run, a []Value) Value { return &StrV{opaque: true} })
}

func (r *Run) bytesCompare(a, b Value) Value {
	x, y := r.byteSliceTerms(a), r.byteSliceTerms(b)
	c := r.ctx
	n := len(x)
	if len(y) < n {
		n = len(y)
	}
	for i := 0; i < n; i++ {
		if r.branch(c.Eq(x[i], y[i])) {
			continue
		}
		if r.branch(c.BVUlt(x[i], y[i])) {
			return r.intTerm(-1)
		}
		return r.intTerm(1)
	}
	switch {
	case len(x) < len(y):
		return r.intTerm(-1)
	case len(x) > len(y):
		return r.intTerm(1)
	}
	return r.intTerm(0)
}

func (r *Run) sortSlice(g *Goroutine, s SliceV, less *FuncV) {
	if s.len < 2 {
		return
	}
	arr := r.sliceArr(s)
	// insertion sort (stable); comparisons may fork
	for i := 1; i < s.len; i++ {
		for j := i; j > 0; j-- {
			lt := r.callSync(g, less, []Value{r.intTerm(int64(j)), r.intTerm(int64(j - 1))}).(*Term)
			if !r.branch(lt) {
				break
			}
			arr.e[s.off+j], arr.e[s.off+j-1] = arr.e[s.off+j-1], arr.e[s.off+j]
		}
	}
}

// callMethod calls method name on an interface value if the dynamic type has it.
func (r *Run) findMethod(t types.Type, name string) *ssa.Function {
	ms := r.eng.prog.MethodSets.MethodSet(t)
	for i := 0; i < ms.Len(); i++ {
		sel := ms.At(i)
		if sel.Obj().Name() == name {
			return r.eng.prog.MethodValue(sel)
		}
	}
	return nil
}

func (r *Run) unwrapErr(g *Goroutine, e IfaceV) (IfaceV, []IfaceV) {
	if e.t == nil {
		return IfaceV{}, nil
	}
	if fn := r.findMethod(e.t, "Unwrap"); fn != nil {
		res := fn.Signature.Results()
		if res.Len() == 1 {
			if _, ok := res.At(0).Type().Underlying().(*types.Interface); ok {
				out := r.callSync(g, &FuncV{fn: fn}, []Value{e.v})
				return out.(IfaceV), nil
			}
			if _, ok := res.At(0).Type().Underlying().(*types.Slice); ok {
				out := r.callSync(g, &FuncV{fn: fn}, []Value{e.v}).(SliceV)
				var many []IfaceV
				for i := 0; i < out.len; i++ {
					many = append(many, r.sliceElem(out, i).(IfaceV))
				}
				return IfaceV{}, many
			}
		}
	}
	return IfaceV{}, nil
}

func (r *Run) errorsIs(g *Goroutine, err, target IfaceV) Value {
	c := r.ctx
	if err.t == nil || target.t == nil {
		return c.Bool(err.t == nil && target.t == nil)
	}
	comparable := types.Comparable(target.t)
	for depth := 0; depth < 50; depth++ {
		if err.t == nil {
			return c.Bool(false)
		}
		if comparable && types.Identical(err.t, target.t) {
			if r.branch(r.equal(err.v, target.v)) {
				return c.Bool(true)
			}
		}
		if fn := r.findMethod(err.t, "Is"); fn != nil && fn.Signature.Params().Len() == 1 {
			if res := r.callSync(g, &FuncV{fn: fn}, []Value{err.v, target}); res != nil {
				if r.branch(res.(*Term)) {
					return c.Bool(true)
				}
			}
		}
		next, many := r.unwrapErr(g, err)
		if many != nil {
			for _, m := range many {
				if r.branch(r.errorsIs(g, m, target).(*Term)) {
					return c.Bool(true)
				}
			}
			return c.Bool(false)
		}
		err = next
	}
	panic(engineErr("errors.Is: chain too long"))
}

func (r *Run) errorsAs(g *Goroutine, err, target IfaceV) Value {
	c := r.ctx
	if target.t == nil {
		panic(goPanic{kind: "explicit", msg: "errors: target cannot be nil"})
	}
	pt, ok := target.t.Underlying().(*types.Pointer)
	if !ok {
		panic(goPanic{kind: "explicit", msg: "errors: target must be a non-nil pointer"})
	}
	tt := pt.Elem()
	for depth := 0; depth < 50; depth++ {
		if err.t == nil {
			return c.Bool(false)
		}
		if it, isI := tt.Underlying().(*types.Interface); isI {
			if types.Implements(err.t, it) {
				r.store(target.v.(PtrV), err)
				return c.Bool(true)
			}
		} else if types.Identical(err.t, tt) {
			r.store(target.v.(PtrV), err.v)
			return c.Bool(true)
		}
		if fn := r.findMethod(err.t, "As"); fn != nil && fn.Signature.Params().Len() == 1 {
			if res := r.callSync(g, &FuncV{fn: fn}, []Value{err.v, target}); res != nil {
				if r.branch(res.(*Term)) {
					return c.Bool(true)
				}
			}
		}
		next, many := r.unwrapErr(g, err)
		if many != nil {
			for _, m := range many {
				if r.branch(r.errorsAs(g, m, target).(*Term)) {
					return c.Bool(true)
				}
			}
			return c.Bool(false)
		}
		err = next
	}
	panic(engineErr("errors.As: chain too long"))
}

// prefixIntrinsic models whole method families: the logrus logger (installed
// as go-perun's default logger by the client package's init). Panic* panics,
// Fatal* exits, With* returns an entry, everything else logs nothing.
func prefixIntrinsic(e *Engine, fn *ssa.Function) intrinsicFn {
	name := fn.String()
	const ent, lg = "(*github.com/sirupsen/logrus.Entry).", "(*github.com/sirupsen/logrus.Logger)."
	var meth string
	isLogger := false
	switch {
	case strings.HasPrefix(name, ent):
		meth = name[len(ent):]
	case strings.HasPrefix(name, lg):
		meth = name[len(lg):]
		isLogger = true
	default:
		return nil
	}
	switch {
	case strings.HasPrefix(meth, "Panic"):
		return func(r *Run, g *Goroutine, fv *FuncV, a []Value, retTo func(Value)) (Value, bool) {
			msg := "logrus " + meth
			if len(a) > 1 {
				if s, ok := a[1].(*StrV); ok {
					if c, ok := r.strConcrete(s); ok {
						msg = c
					}
				}
			}
			panic(goPanic{kind: "explicit", msg: msg})
		}
	case strings.HasPrefix(meth, "Fatal") || meth == "Exit":
		return func(r *Run, g *Goroutine, fv *FuncV, a []Value, retTo func(Value)) (Value, bool) {
			panic(goPanic{kind: "exit", msg: "logrus " + meth + ": process exits"})
		}
	case strings.HasPrefix(meth, "With"):
		return func(r *Run, g *Goroutine, fv *FuncV, a []Value, retTo func(Value)) (Value, bool) {
			if !isLogger {
				return a[0], true
			}
			et := r.eng.pkgs["github.com/sirupsen/logrus"].Type("Entry").Type()
			v := r.zero(et).(*StructV)
			v.f[r.fieldByName(et, "Logger")] = a[0]
			return PtrV{obj: r.newObject(et, v)}, true
		}
	case meth == "SetLevel" || meth == "SetFormatter" || meth == "SetOutput" || meth == "GetLevel" || meth == "level":
		return nil // plain field accessors: interpreted
	}
	return func(r *Run, g *Goroutine, fv *FuncV, a []Value, retTo func(Value)) (Value, bool) {
		res := fn.Signature.Results()
		if res.Len() == 0 {
			return nil, true
		}
		return r.zero(res.At(0).Type()), true
	}
}
