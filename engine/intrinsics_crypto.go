package main

// Idealised cryptography (DESIGN §2.8): a collision-free hash and an
// existentially unforgeable, non-deterministic signature scheme. Concrete
// inputs are hashed with the real SHA-256.

import (
	"crypto/sha256"
	"fmt"
	"go/types"
	"math/big"
)

type hasherState struct {
	stream []*Term
	kind   string
}

type hashRec struct {
	kind   string
	stream []*Term
	digest []*Term
}

type sigRec struct {
	tag    int64
	x, y   *Term // public key coordinates (Int)
	digest []*Term
}

func allConst(bs []*Term) bool {
	for _, b := range bs {
		if !b.IsConst() {
			return false
		}
	}
	return true
}

func (r *Run) bytesEqTerm(a, b []*Term) *Term {
	if len(a) != len(b) {
		return r.ctx.Bool(false)
	}
	parts := make([]*Term, len(a))
	for i := range a {
		parts[i] = r.ctx.Eq(a[i], b[i])
	}
	return r.ctx.And(parts...)
}

// idealDigest returns the 32 digest bytes for a byte stream.
func (r *Run) idealDigest(kind string, stream []*Term) []*Term {
	c := r.ctx
	out := make([]*Term, 32)
	conc := allConst(stream) && kind == "sha256"
	if conc {
		buf := make([]byte, len(stream))
		for i, b := range stream {
			buf[i] = byte(b.CV)
		}
		d := sha256.Sum256(buf)
		for i := range out {
			out[i] = c.BV(8, uint64(d[i]))
		}
	} else {
		// same stream as an earlier call: same digest
		for _, h := range r.hashes {
			if h.kind == kind && len(h.stream) == len(stream) {
				same := true
				for i := range stream {
					if stream[i] != h.stream[i] {
						same = false
						break
					}
				}
				if same {
					return h.digest
				}
			}
		}
		k := len(r.hashes)
		nz := make([]*Term, len(out))
		for i := range out {
			out[i] = c.Var(fmt.Sprintf("h%d_%d", k, i), bvSort(8))
			nz[i] = c.Not(c.Eq(out[i], c.BV(8, 0)))
		}
		// an ideal digest is never the all-zero string
		r.addPC(c.Or(nz...))
	}
	for _, h := range r.hashes {
		if h.kind != kind || (conc && allConst(h.digest)) {
			continue
		}
		r.addPC(c.Eq(r.bytesEqTerm(out, h.digest), r.bytesEqTerm(stream, h.stream)))
	}
	r.hashes = append(r.hashes, hashRec{kind, append([]*Term(nil), stream...), out})
	return out
}

func (r *Run) digestArray(d []*Term) *ArrayV {
	a := &ArrayV{e: make([]Value, len(d))}
	for i, b := range d {
		a.e[i] = b
	}
	return a
}

func (r *Run) fieldByName(t types.Type, name string) int {
	st := t.Underlying().(*types.Struct)
	for i := 0; i < st.NumFields(); i++ {
		if st.Field(i).Name() == name {
			return i
		}
	}
	panic(engineErr("field %s not found in %v", name, t))
}

func registerCrypto(e *Engine, simple func(string, func(*Run, []Value) Value)) {
	simple("crypto/sha256.Sum256", func(r *Run, a []Value) Value {
		return r.digestArray(r.idealDigest("sha256", r.byteSliceTerms(a[0])))
	})
	newHasher := func(kind, pkg, typ string) func(r *Run, a []Value) Value {
		return func(r *Run, a []Value) Value {
			p := r.eng.pkgs[pkg]
			if p == nil {
				panic(engineErr("%s not loaded", pkg))
			}
			tn := p.Type(typ)
			if tn == nil {
				panic(engineErr("%s.%s not found", pkg, typ))
			}
			o := r.newObject(tn.Type(), r.zero(tn.Type()))
			r.hashers[o] = &hasherState{kind: kind}
			return IfaceV{t: types.NewPointer(tn.Type()), v: PtrV{obj: o}}
		}
	}
	simple("crypto/sha256.New", newHasher("sha256", "crypto/sha256", "digest"))
	hs := func(r *Run, v Value) *hasherState {
		h := r.hashers[v.(PtrV).obj]
		if h == nil {
			panic(engineErr("hasher not created by the model"))
		}
		return h
	}
	for _, recv := range []string{"(*crypto/sha256.digest)", "(*golang.org/x/crypto/sha3.state)"} {
		simple(recv+".Write", func(r *Run, a []Value) Value {
			h := hs(r, a[0])
			bs := r.byteSliceTerms(a[1])
			h.stream = append(h.stream, bs...)
			return TupleV{r.intTerm(int64(len(bs))), IfaceV{}}
		})
		simple(recv+".Sum", func(r *Run, a []Value) Value {
			h := hs(r, a[0])
			d := r.idealDigest(h.kind, h.stream)
			prefix := r.byteSliceTerms(a[1])
			return r.bytesToSlice(append(append([]*Term{}, prefix...), d...))
		})
		simple(recv+".Reset", func(r *Run, a []Value) Value { hs(r, a[0]).stream = nil; return nil })
		simple(recv+".Size", func(r *Run, a []Value) Value { return r.intTerm(32) })
		simple(recv+".BlockSize", func(r *Run, a []Value) Value { return r.intTerm(64) })
	}
	simple("golang.org/x/crypto/sha3.New256", newHasher("sha3", "golang.org/x/crypto/sha3", "state"))

	// elliptic.P256(): a CurveParams with only BitSize set
	simple("crypto/elliptic.P256", func(r *Run, a []Value) Value {
		if r.p256.obj == nil {
			tn := r.eng.pkgs["crypto/elliptic"].Type("CurveParams")
			v := r.zero(tn.Type()).(*StructV)
			v.f[r.fieldByName(tn.Type(), "BitSize")] = r.intTerm(256)
			v.f[r.fieldByName(tn.Type(), "Name")] = &StrV{s: "P-256"}
			r.p256 = PtrV{obj: r.newObject(tn.Type(), v)}
		}
		tn := r.eng.pkgs["crypto/elliptic"].Type("CurveParams")
		return IfaceV{t: types.NewPointer(tn.Type()), v: r.p256}
	})
	simple("(*crypto/elliptic.CurveParams).Params", func(r *Run, a []Value) Value { return a[0] })

	// ecdsa.GenerateKey: distinct concrete key material
	simple("crypto/ecdsa.GenerateKey", func(r *Run, a []Value) Value {
		r.keyCnt++
		k := int64(r.keyCnt)
		pt := r.eng.pkgs["crypto/ecdsa"].Type("PrivateKey").Type()
		pubT := r.eng.pkgs["crypto/ecdsa"].Type("PublicKey").Type()
		priv := r.zero(pt).(*StructV)
		pub := r.zero(pubT).(*StructV)
		pub.f[r.fieldByName(pubT, "Curve")] = a[0]
		pub.f[r.fieldByName(pubT, "X")] = r.newBig(r.ctx.IntI(1000 + k))
		pub.f[r.fieldByName(pubT, "Y")] = r.newBig(r.ctx.IntI(2000 + k))
		priv.f[r.fieldByName(pt, "PublicKey")] = pub
		priv.f[r.fieldByName(pt, "D")] = r.newBig(r.ctx.IntI(3000 + k))
		o := r.newObject(pt, priv)
		return TupleV{PtrV{obj: o}, IfaceV{}}
	})
	simple("crypto/ecdsa.Sign", func(r *Run, a []Value) Value {
		priv := a[1].(PtrV)
		pt := r.eng.pkgs["crypto/ecdsa"].Type("PrivateKey").Type()
		pubT := r.eng.pkgs["crypto/ecdsa"].Type("PublicKey").Type()
		pubP := priv.child(r.fieldByName(pt, "PublicKey"))
		x := r.bigOf(r.load(pubP.child(r.fieldByName(pubT, "X"))))
		y := r.bigOf(r.load(pubP.child(r.fieldByName(pubT, "Y"))))
		tag := int64(len(r.sigs) + 1)
		r.sigs = append(r.sigs, sigRec{tag: tag, x: x, y: y, digest: r.byteSliceTerms(a[2])})
		// r = tag * 2^128 + 7 (fills 32 bytes like a real coordinate would not; harmless), s = 1
		rv := new(big.Int).Add(new(big.Int).Lsh(big.NewInt(tag), 128), big.NewInt(7))
		return TupleV{r.newBig(r.ctx.Int(rv)), r.newBig(r.ctx.IntI(1)), IfaceV{}}
	})
	simple("crypto/ecdsa.Verify", func(r *Run, a []Value) Value {
		c := r.ctx
		pub := a[0].(PtrV)
		if pub.IsNil() {
			panic(goPanic{kind: "nil-deref", msg: "nil public key"})
		}
		pubT := r.eng.pkgs["crypto/ecdsa"].Type("PublicKey").Type()
		xp := r.load(pub.child(r.fieldByName(pubT, "X"))).(PtrV)
		yp := r.load(pub.child(r.fieldByName(pubT, "Y"))).(PtrV)
		if xp.IsNil() || yp.IsNil() {
			return c.Bool(false)
		}
		x, y := r.bigOf(xp), r.bigOf(yp)
		dg := r.byteSliceTerms(a[1])
		rv, sv := r.bigOf(a[2]), r.bigOf(a[3])
		var alts []*Term
		for _, s := range r.sigs {
			want := new(big.Int).Add(new(big.Int).Lsh(big.NewInt(s.tag), 128), big.NewInt(7))
			alts = append(alts, c.And(c.Eq(rv, c.Int(want)), c.Eq(sv, c.IntI(1)), c.Eq(x, s.x), c.Eq(y, s.y), r.bytesEqTerm(dg, s.digest)))
		}
		return c.Or(alts...)
	})
	simple("(*crypto/rand.reader).Read", func(r *Run, a []Value) Value {
		s := a[1].(SliceV)
		r.randCnt++
		if s.len > 0 {
			arr := r.sliceArr(s)
			for i := 0; i < s.len; i++ {
				arr.e[s.off+i] = r.ctx.BV(8, uint64((r.randCnt*31+i*7+1)&0xff))
			}
		}
		return TupleV{r.intTerm(int64(s.len)), IfaceV{}}
	})
	simple("crypto/rand.Read", func(r *Run, a []Value) Value {
		// randomness = fixed distinct bytes per call (never the subject of a property here)
		s := a[0].(SliceV)
		r.randCnt++
		arr := r.sliceArr(s)
		for i := 0; i < s.len; i++ {
			arr.e[s.off+i] = r.ctx.BV(8, uint64((r.randCnt*31+i*7+1)&0xff))
		}
		return TupleV{r.intTerm(int64(s.len)), IfaceV{}}
	})
}

// modelGlobal gives values for globals of packages whose initialiser is not run.
func (r *Run) modelGlobal(g interface{ String() string }) (Value, bool) {
	switch g.String() {
	case "crypto/rand.Reader":
		// a reader object whose Read is the model above
		if p := r.eng.pkgs["crypto/rand"]; p != nil {
			if tn := p.Type("reader"); tn != nil {
				if r.randReader.obj == nil {
					r.randReader = PtrV{obj: r.newObject(tn.Type(), r.zero(tn.Type()))}
				}
				return IfaceV{t: types.NewPointer(tn.Type()), v: r.randReader}, true
			}
		}
		return IfaceV{}, true
	}
	return nil, false
}
