package main

// Values: structure is concrete, scalar leaves are terms.

import (
	"fmt"
	"go/types"
	"math/big"
	"strings"

	"golang.org/x/tools/go/ssa"
)

type Value interface{}

type FloatV float64

// StrV is an immutable string. If sym is nil the string is the concrete s;
// otherwise it has len(sym) bytes given as 8-bit terms. An opaque string is
// the result of formatting symbolic data; only its identity may be used.
type StrV struct {
	s      string
	sym    []*Term
	opaque bool
}

func (s *StrV) Len() int {
	if s.sym != nil {
		return len(s.sym)
	}
	return len(s.s)
}

type Object struct {
	id   int
	typ  types.Type
	val  Value
	name string
}

// PtrV: pointer into an object; nil pointer has obj == nil.
type PtrV struct {
	obj  *Object
	path []int
}

func (p PtrV) IsNil() bool { return p.obj == nil }

func (p PtrV) child(i int) PtrV {
	np := make([]int, len(p.path)+1)
	copy(np, p.path)
	np[len(p.path)] = i
	return PtrV{p.obj, np}
}

func (p PtrV) same(q PtrV) bool {
	if p.obj != q.obj || len(p.path) != len(q.path) {
		return false
	}
	for i := range p.path {
		if p.path[i] != q.path[i] {
			return false
		}
	}
	return true
}

type StructV struct{ f []Value }
type ArrayV struct{ e []Value }

// SliceV: base points to an array slot; elements off..off+len-1. A nil slice
// has a nil base. If sym is non-nil the true length is the term sym (64-bit),
// of which only len elements are materialised (sym > len-1 on the path).
type SliceV struct {
	base     PtrV
	off      int
	len, cap int
	sym      *Term
}

func (s SliceV) IsNil() bool { return s.base.obj == nil }

type MapV struct {
	id   int
	keys []Value
	vals []Value
	typ  *types.Map
}

type IfaceV struct {
	t types.Type // dynamic type; nil for the nil interface
	v Value
}

type FuncV struct {
	fn   *ssa.Function
	env  []Value
	intr string // name of an intrinsic/builtin when fn has no body
}

type TupleV []Value

// BigV is the value of a math/big.Int struct: a mathematical integer.
type BigV struct{ t *Term }

// TimeV is the value of a time.Time struct: nanoseconds since the epoch.
type TimeV struct{ ns *Term }

// OpaqueV is a value produced by an unmodelled initialiser; using it is an
// engine error.
type OpaqueV struct{ what string }

// ---------------------------------------------------------------- type helpers

func isNamed(t types.Type, pkg, name string) bool {
	n, ok := types.Unalias(t).(*types.Named)
	if !ok {
		return false
	}
	o := n.Obj()
	return o.Name() == name && o.Pkg() != nil && o.Pkg().Path() == pkg
}

func intWidth(b *types.Basic) (w int, signed bool) {
	switch b.Kind() {
	case types.Int8:
		return 8, true
	case types.Int16:
		return 16, true
	case types.Int32:
		return 32, true
	case types.Int64, types.Int, types.UntypedInt:
		return 64, true
	case types.Uint8:
		return 8, false
	case types.Uint16:
		return 16, false
	case types.Uint32:
		return 32, false
	case types.Uint64, types.Uint, types.Uintptr:
		return 64, false
	case types.UntypedRune:
		return 32, true
	}
	return 0, false
}

func isIntType(t types.Type) (w int, signed, ok bool) {
	b, isB := t.Underlying().(*types.Basic)
	if !isB {
		return 0, false, false
	}
	w, signed = intWidth(b)
	return w, signed, w != 0
}

// zero returns the zero value of a type.
func (r *Run) zero(t types.Type) Value {
	if isNamed(t, "math/big", "Int") {
		return &BigV{r.ctx.IntI(0)}
	}
	if isNamed(t, "time", "Time") {
		return &TimeV{r.ctx.BV(64, 0)}
	}
	switch u := t.Underlying().(type) {
	case *types.Basic:
		switch {
		case u.Kind() == types.Bool || u.Kind() == types.UntypedBool:
			return r.ctx.Bool(false)
		case u.Info()&types.IsInteger != 0:
			w, _ := intWidth(u)
			return r.ctx.BV(w, 0)
		case u.Info()&types.IsFloat != 0:
			return FloatV(0)
		case u.Info()&types.IsString != 0:
			return &StrV{}
		case u.Kind() == types.UnsafePointer:
			return PtrV{}
		case u.Kind() == types.UntypedNil:
			return nil
		}
	case *types.Pointer:
		return PtrV{}
	case *types.Struct:
		s := &StructV{f: make([]Value, u.NumFields())}
		for i := range s.f {
			s.f[i] = r.zero(u.Field(i).Type())
		}
		return s
	case *types.Array:
		a := &ArrayV{e: make([]Value, u.Len())}
		if u.Len() > 0 {
			z := r.zero(u.Elem())
			for i := range a.e {
				if i == 0 {
					a.e[i] = z
				} else {
					a.e[i] = copyVal(z)
				}
			}
		}
		return a
	case *types.Slice:
		return SliceV{}
	case *types.Map:
		return (*MapV)(nil)
	case *types.Chan:
		return (*ChanV)(nil)
	case *types.Interface:
		return IfaceV{}
	case *types.Signature:
		return (*FuncV)(nil)
	case *types.Tuple:
		tv := make(TupleV, u.Len())
		for i := range tv {
			tv[i] = r.zero(u.At(i).Type())
		}
		return tv
	}
	panic(engineErr("zero: unsupported type %v", t))
}

// copyVal deep-copies the mutable aggregate parts of a value (structs and
// arrays); everything else is immutable or a reference.
func copyVal(v Value) Value {
	switch x := v.(type) {
	case *StructV:
		n := &StructV{f: make([]Value, len(x.f))}
		for i, f := range x.f {
			n.f[i] = copyVal(f)
		}
		return n
	case *ArrayV:
		n := &ArrayV{e: make([]Value, len(x.e))}
		for i, f := range x.e {
			n.e[i] = copyVal(f)
		}
		return n
	case *BigV:
		return &BigV{x.t}
	case *TimeV:
		return &TimeV{x.ns}
	case TupleV:
		n := make(TupleV, len(x))
		for i, f := range x {
			n[i] = copyVal(f)
		}
		return n
	}
	return v
}

// ---------------------------------------------------------------- memory

func (r *Run) newObject(t types.Type, v Value) *Object {
	r.nextObj++
	return &Object{id: r.nextObj, typ: t, val: v}
}

// slot returns the address of the slot designated by the pointer.
func (r *Run) slot(p PtrV) *Value {
	if p.obj == nil {
		panic(goPanic{kind: "nil-deref", msg: "invalid memory address or nil pointer dereference"})
	}
	cur := &p.obj.val
	for _, i := range p.path {
		switch x := (*cur).(type) {
		case *StructV:
			cur = &x.f[i]
		case *ArrayV:
			if i < 0 || i >= len(x.e) {
				panic(engineErr("slot: index %d out of array of %d", i, len(x.e)))
			}
			cur = &x.e[i]
		default:
			panic(engineErr("slot: cannot navigate into %T", *cur))
		}
	}
	return cur
}

func (r *Run) load(p PtrV) Value {
	v := *r.slot(p)
	if o, ok := v.(OpaqueV); ok {
		panic(engineErr("use of unmodelled value: %s", o.what))
	}
	return copyVal(v)
}

func (r *Run) store(p PtrV, v Value) {
	*r.slot(p) = copyVal(v)
}

// ---------------------------------------------------------------- strings

func (r *Run) strConst(s string) *StrV { return &StrV{s: s} }

func (r *Run) strBytes(s *StrV) []*Term {
	if s.opaque {
		panic(engineErr("bytes of an opaque (formatted) string are used"))
	}
	if s.sym != nil {
		return s.sym
	}
	out := make([]*Term, len(s.s))
	for i := 0; i < len(s.s); i++ {
		out[i] = r.ctx.BV(8, uint64(s.s[i]))
	}
	return out
}

func (r *Run) strFromBytes(bs []*Term) *StrV {
	conc := true
	for _, b := range bs {
		if !b.IsConst() {
			conc = false
			break
		}
	}
	if conc {
		var sb strings.Builder
		for _, b := range bs {
			sb.WriteByte(byte(b.CV))
		}
		return &StrV{s: sb.String()}
	}
	cp := make([]*Term, len(bs))
	copy(cp, bs)
	return &StrV{sym: cp}
}

func (r *Run) strConcrete(s *StrV) (string, bool) {
	if s.opaque || s.sym != nil {
		return "", false
	}
	return s.s, true
}

func (r *Run) mustStr(v Value) string {
	s, ok := r.strConcrete(v.(*StrV))
	if !ok {
		panic(engineErr("concrete string required"))
	}
	return s
}

// ---------------------------------------------------------------- equality

// equal returns the Bool term for a == b (Go comparable semantics).
func (r *Run) equal(a, b Value) *Term {
	c := r.ctx
	switch x := a.(type) {
	case nil:
		return c.Bool(b == nil)
	case *Term:
		y, ok := b.(*Term)
		if !ok {
			panic(engineErr("equal: %T vs %T", a, b))
		}
		return c.Eq(x, y)
	case FloatV:
		return c.Bool(x == b.(FloatV))
	case *StrV:
		y := b.(*StrV)
		if x.opaque || y.opaque {
			if x == y {
				return c.tT
			}
			panic(engineErr("comparison of an opaque (formatted) string"))
		}
		if x.Len() != y.Len() {
			return c.tF
		}
		if x.sym == nil && y.sym == nil {
			return c.Bool(x.s == y.s)
		}
		xb, yb := r.strBytes(x), r.strBytes(y)
		parts := make([]*Term, len(xb))
		for i := range xb {
			parts[i] = c.Eq(xb[i], yb[i])
		}
		return c.And(parts...)
	case PtrV:
		y := b.(PtrV)
		return c.Bool(x.same(y))
	case *StructV:
		y := b.(*StructV)
		parts := make([]*Term, len(x.f))
		for i := range x.f {
			parts[i] = r.equal(x.f[i], y.f[i])
		}
		return c.And(parts...)
	case *ArrayV:
		y := b.(*ArrayV)
		parts := make([]*Term, len(x.e))
		for i := range x.e {
			parts[i] = r.equal(x.e[i], y.e[i])
		}
		return c.And(parts...)
	case IfaceV:
		y, ok := b.(IfaceV)
		if !ok {
			panic(engineErr("equal: iface vs %T", b))
		}
		if x.t == nil || y.t == nil {
			return c.Bool(x.t == nil && y.t == nil)
		}
		if !types.Identical(x.t, y.t) {
			return c.tF
		}
		if !types.Comparable(x.t) {
			panic(goPanic{kind: "runtime", msg: "comparing uncomparable type " + x.t.String()})
		}
		return r.equal(x.v, y.v)
	case *MapV:
		y, _ := b.(*MapV)
		return c.Bool(x == y)
	case *ChanV:
		y, _ := b.(*ChanV)
		return c.Bool(x == y)
	case *FuncV:
		y, _ := b.(*FuncV)
		return c.Bool(x == nil && y == nil)
	case SliceV:
		// only comparison with nil reaches here
		y := b.(SliceV)
		return c.Bool(x.IsNil() && y.IsNil())
	case *BigV:
		return c.Eq(x.t, b.(*BigV).t)
	case *TimeV:
		return c.Eq(x.ns, b.(*TimeV).ns)
	}
	panic(engineErr("equal: unsupported %T", a))
}

// ---------------------------------------------------------------- rendering

func (r *Run) render(v Value) string { return renderVal(v, 0) }

func renderVal(v Value, d int) string {
	if d > 4 {
		return "…"
	}
	switch x := v.(type) {
	case nil:
		return "nil"
	case *Term:
		return x.String()
	case FloatV:
		return fmt.Sprint(float64(x))
	case *StrV:
		if x.opaque {
			return "<fmt>"
		}
		if x.sym == nil {
			return fmt.Sprintf("%q", x.s)
		}
		return fmt.Sprintf("<symstr %d>", len(x.sym))
	case PtrV:
		if x.obj == nil {
			return "nil"
		}
		return fmt.Sprintf("&o%d%v", x.obj.id, x.path)
	case *StructV:
		var sb strings.Builder
		sb.WriteString("{")
		for i, f := range x.f {
			if i > 0 {
				sb.WriteString(" ")
			}
			sb.WriteString(renderVal(f, d+1))
		}
		sb.WriteString("}")
		return sb.String()
	case *ArrayV:
		return fmt.Sprintf("[%d]…", len(x.e))
	case SliceV:
		if x.IsNil() {
			return "[]nil"
		}
		return fmt.Sprintf("slice(o%d off=%d len=%d)", x.base.obj.id, x.off, x.len)
	case *MapV:
		if x == nil {
			return "map(nil)"
		}
		return fmt.Sprintf("map#%d(%d)", x.id, len(x.keys))
	case IfaceV:
		if x.t == nil {
			return "iface(nil)"
		}
		return fmt.Sprintf("iface(%v: %s)", x.t, renderVal(x.v, d+1))
	case *FuncV:
		if x == nil {
			return "func(nil)"
		}
		if x.fn != nil {
			return "func " + x.fn.String()
		}
		return "func " + x.intr
	case *BigV:
		return "big(" + x.t.String() + ")"
	case TupleV:
		var sb strings.Builder
		sb.WriteString("(")
		for i, f := range x {
			if i > 0 {
				sb.WriteString(", ")
			}
			sb.WriteString(renderVal(f, d+1))
		}
		sb.WriteString(")")
		return sb.String()
	}
	return fmt.Sprintf("%T", v)
}

func bigFromInt64(v int64) *big.Int { return big.NewInt(v) }
