package main

// sync / sync/atomic as engine primitives over the cooperative scheduler. The
// lock state lives in the struct's own memory (first field).

import (
	"go/types"
)

func (r *Run) fieldInt(p PtrV, path ...int) int64 {
	q := p
	for _, i := range path {
		q = q.child(i)
	}
	t := (*r.slot(q)).(*Term)
	if !t.IsConst() {
		panic(engineErr("symbolic synchronisation state"))
	}
	return signExtend(t.CV, t.Sort.W)
}

func (r *Run) setFieldInt(p PtrV, v int64, path ...int) {
	q := p
	for _, i := range path {
		q = q.child(i)
	}
	t := (*r.slot(q)).(*Term)
	*r.slot(q) = r.ctx.BV(t.Sort.W, uint64(v))
}

func registerSync(e *Engine) {
	in := e.intrinsics
	// block performs op if ready() holds, otherwise parks the goroutine until
	// it does; the result is delivered through retTo.
	block := func(r *Run, g *Goroutine, what string, ready func() bool, op func() Value, retTo func(Value)) (Value, bool) {
		if ready() {
			v := op()
			r.schedPoint(what)
			return v, true
		}
		g.blocked = &blockInfo{what: what, ready: ready, resume: func() {
			v := op()
			if retTo != nil {
				retTo(v)
			}
		}}
		return deferredResult{}, true
	}

	// sync.Mutex: field 0 = state (0 free, 1 locked)
	in["(*sync.Mutex).Lock"] = func(r *Run, g *Goroutine, fv *FuncV, a []Value, retTo func(Value)) (Value, bool) {
		p := a[0].(PtrV)
		return block(r, g, "sync.Mutex.Lock", func() bool { return r.fieldInt(p, 0) == 0 }, func() Value { r.setFieldInt(p, 1, 0); r.raceAcquire(g, p.obj); return nil }, retTo)
	}
	in["(*sync.Mutex).TryLock"] = func(r *Run, g *Goroutine, fv *FuncV, a []Value, retTo func(Value)) (Value, bool) {
		p := a[0].(PtrV)
		if r.fieldInt(p, 0) == 0 {
			r.setFieldInt(p, 1, 0)
			r.raceAcquire(g, p.obj)
			return r.ctx.Bool(true), true
		}
		return r.ctx.Bool(false), true
	}
	in["(*sync.Mutex).Unlock"] = func(r *Run, g *Goroutine, fv *FuncV, a []Value, retTo func(Value)) (Value, bool) {
		p := a[0].(PtrV)
		if r.fieldInt(p, 0) == 0 {
			panic(goPanic{kind: "exit", msg: "fatal error: sync: unlock of unlocked mutex"})
		}
		r.raceRelease(g, p.obj)
		r.setFieldInt(p, 0, 0)
		r.schedPoint("unlock")
		return nil, true
	}
	// sync.RWMutex: field w (Mutex) state used as writer flag; readerCount field for readers.
	// layout: w Mutex; writerSem, readerSem uint32; readerCount, readerWait atomic.Int32
	rwReaders := func(r *Run, p PtrV) int64 { return r.fieldInt(p, 3, 1) }
	rwSetReaders := func(r *Run, p PtrV, v int64) { r.setFieldInt(p, v, 3, 1) }
	rwWriter := func(r *Run, p PtrV) int64 { return r.fieldInt(p, 0, 0) }
	in["(*sync.RWMutex).Lock"] = func(r *Run, g *Goroutine, fv *FuncV, a []Value, retTo func(Value)) (Value, bool) {
		p := a[0].(PtrV)
		return block(r, g, "sync.RWMutex.Lock", func() bool { return rwWriter(r, p) == 0 && rwReaders(r, p) == 0 },
			func() Value {
				r.setFieldInt(p, 1, 0, 0)
				r.raceAcquire(g, p.obj)
				r.raceAcquire(g, rkey{p.obj})
				return nil
			}, retTo)
	}
	in["(*sync.RWMutex).Unlock"] = func(r *Run, g *Goroutine, fv *FuncV, a []Value, retTo func(Value)) (Value, bool) {
		p := a[0].(PtrV)
		if rwWriter(r, p) == 0 {
			panic(goPanic{kind: "exit", msg: "fatal error: sync: Unlock of unlocked RWMutex"})
		}
		r.raceRelease(g, p.obj)
		r.setFieldInt(p, 0, 0, 0)
		r.schedPoint("unlock")
		return nil, true
	}
	in["(*sync.RWMutex).RLock"] = func(r *Run, g *Goroutine, fv *FuncV, a []Value, retTo func(Value)) (Value, bool) {
		p := a[0].(PtrV)
		return block(r, g, "sync.RWMutex.RLock", func() bool { return rwWriter(r, p) == 0 },
			func() Value { rwSetReaders(r, p, rwReaders(r, p)+1); r.raceAcquire(g, p.obj); return nil }, retTo)
	}
	in["(*sync.RWMutex).RUnlock"] = func(r *Run, g *Goroutine, fv *FuncV, a []Value, retTo func(Value)) (Value, bool) {
		p := a[0].(PtrV)
		if rwReaders(r, p) <= 0 {
			panic(goPanic{kind: "exit", msg: "fatal error: sync: RUnlock of unlocked RWMutex"})
		}
		rwSetReaders(r, p, rwReaders(r, p)-1)
		r.raceRelease(g, rkey{p.obj})
		r.schedPoint("runlock")
		return nil, true
	}
	// sync.WaitGroup: noCopy; state atomic.Uint64 (field 1: {_ noCopy; _ align64; v uint64}); sema
	wgGet := func(r *Run, p PtrV) int64 { return r.fieldInt(p, 1, 2) }
	wgSet := func(r *Run, p PtrV, v int64) { r.setFieldInt(p, v, 1, 2) }
	in["(*sync.WaitGroup).Add"] = func(r *Run, g *Goroutine, fv *FuncV, a []Value, retTo func(Value)) (Value, bool) {
		p := a[0].(PtrV)
		n := wgGet(r, p) + r.concreteInt(a[1], "WaitGroup delta")
		if n < 0 {
			panic(goPanic{kind: "explicit", msg: "sync: negative WaitGroup counter"})
		}
		wgSet(r, p, n)
		return nil, true
	}
	in["(*sync.WaitGroup).Done"] = func(r *Run, g *Goroutine, fv *FuncV, a []Value, retTo func(Value)) (Value, bool) {
		p := a[0].(PtrV)
		n := wgGet(r, p) - 1
		if n < 0 {
			panic(goPanic{kind: "explicit", msg: "sync: negative WaitGroup counter"})
		}
		wgSet(r, p, n)
		r.raceRelease(g, p.obj)
		r.schedPoint("wg.Done")
		return nil, true
	}
	in["(*sync.WaitGroup).Wait"] = func(r *Run, g *Goroutine, fv *FuncV, a []Value, retTo func(Value)) (Value, bool) {
		p := a[0].(PtrV)
		return block(r, g, "sync.WaitGroup.Wait", func() bool { return wgGet(r, p) == 0 }, func() Value { r.raceAcquire(g, p.obj); return nil }, retTo)
	}
	// sync.Once: done atomic.Uint32 (field 0: {_ noCopy; v uint32}); m Mutex
	in["(*sync.Once).Do"] = func(r *Run, g *Goroutine, fv *FuncV, a []Value, retTo func(Value)) (Value, bool) {
		p := a[0].(PtrV)
		if r.onceDone(p) {
			r.raceAcquire(g, p.obj)
			return nil, true
		}
		r.onceSet(p)
		f := a[1].(*FuncV)
		r.invoke(g, f, nil, func(Value) {
			r.raceRelease(g, p.obj)
			if retTo != nil {
				retTo(nil)
			}
		})
		return deferredResult{}, true
	}

	// sync.Pool: a per-pool free list (LIFO); Get falls back to New
	in["(*sync.Pool).Put"] = func(r *Run, g *Goroutine, fv *FuncV, a []Value, retTo func(Value)) (Value, bool) {
		p := a[0].(PtrV)
		if iv, ok := a[1].(IfaceV); !ok || iv.t != nil {
			if r.pools == nil {
				r.pools = map[*Object][]Value{}
			}
			r.pools[p.obj] = append(r.pools[p.obj], a[1])
		}
		return nil, true
	}
	in["(*sync.Pool).Get"] = func(r *Run, g *Goroutine, fv *FuncV, a []Value, retTo func(Value)) (Value, bool) {
		p := a[0].(PtrV)
		if l := r.pools[p.obj]; len(l) > 0 {
			v := l[len(l)-1]
			r.pools[p.obj] = l[:len(l)-1]
			return v, true
		}
		pt := fv.fn.Signature.Recv().Type().(*types.Pointer).Elem()
		nf := r.load(p.child(r.fieldByName(pt, "New")))
		f, ok := nf.(*FuncV)
		if !ok || f == nil {
			return IfaceV{}, true
		}
		r.invoke(g, f, nil, retTo)
		return deferredResult{}, true
	}
	// sync/atomic functions on *int32 / *int64 / *uint32 / *uint64
	for _, ty := range []string{"Int32", "Int64", "Uint32", "Uint64", "Uintptr"} {
		ty := ty
		in["sync/atomic.Load"+ty] = func(r *Run, g *Goroutine, fv *FuncV, a []Value, retTo func(Value)) (Value, bool) {
			r.raceAcquire(g, akey{keyOf(a[0].(PtrV))})
			return r.load(a[0].(PtrV)), true
		}
		in["sync/atomic.Store"+ty] = func(r *Run, g *Goroutine, fv *FuncV, a []Value, retTo func(Value)) (Value, bool) {
			r.raceRelease(g, akey{keyOf(a[0].(PtrV))})
			r.store(a[0].(PtrV), a[1])
			return nil, true
		}
		in["sync/atomic.Swap"+ty] = func(r *Run, g *Goroutine, fv *FuncV, a []Value, retTo func(Value)) (Value, bool) {
			r.raceAcquire(g, akey{keyOf(a[0].(PtrV))})
			r.raceRelease(g, akey{keyOf(a[0].(PtrV))})
			old := r.load(a[0].(PtrV))
			r.store(a[0].(PtrV), a[1])
			return old, true
		}
		in["sync/atomic.Add"+ty] = func(r *Run, g *Goroutine, fv *FuncV, a []Value, retTo func(Value)) (Value, bool) {
			n := r.ctx.BVAdd(r.load(a[0].(PtrV)).(*Term), a[1].(*Term))
			r.store(a[0].(PtrV), n)
			return n, true
		}
		in["sync/atomic.CompareAndSwap"+ty] = func(r *Run, g *Goroutine, fv *FuncV, a []Value, retTo func(Value)) (Value, bool) {
			cur := r.load(a[0].(PtrV)).(*Term)
			if r.branch(r.ctx.Eq(cur, a[1].(*Term))) {
				r.store(a[0].(PtrV), a[2])
				return r.ctx.Bool(true), true
			}
			return r.ctx.Bool(false), true
		}
	}
	in["sync/atomic.LoadPointer"] = func(r *Run, g *Goroutine, fv *FuncV, a []Value, retTo func(Value)) (Value, bool) {
		return r.load(a[0].(PtrV)), true
	}
	in["sync/atomic.SwapPointer"] = func(r *Run, g *Goroutine, fv *FuncV, a []Value, retTo func(Value)) (Value, bool) {
		r.raceAcquire(g, akey{keyOf(a[0].(PtrV))})
		r.raceRelease(g, akey{keyOf(a[0].(PtrV))})
		old := r.load(a[0].(PtrV))
		r.store(a[0].(PtrV), a[1])
		return old, true
	}
	in["sync/atomic.CompareAndSwapPointer"] = func(r *Run, g *Goroutine, fv *FuncV, a []Value, retTo func(Value)) (Value, bool) {
		cur := r.load(a[0].(PtrV)).(PtrV)
		if cur.same(a[1].(PtrV)) {
			r.store(a[0].(PtrV), a[2])
			return r.ctx.Bool(true), true
		}
		return r.ctx.Bool(false), true
	}
	in["sync/atomic.StorePointer"] = func(r *Run, g *Goroutine, fv *FuncV, a []Value, retTo func(Value)) (Value, bool) {
		r.store(a[0].(PtrV), a[1])
		return nil, true
	}
}

// onceDone reads the done flag of a sync.Once wherever the scalar lives.
func (r *Run) onceDone(p PtrV) bool {
	return r.firstScalar(p.child(0)) != 0
}

func (r *Run) onceSet(p PtrV) {
	q := r.firstScalarPtr(p.child(0))
	t := (*r.slot(q)).(*Term)
	*r.slot(q) = r.ctx.BV(t.Sort.W, 1)
}

// firstScalarPtr descends into nested structs to the last scalar field (the
// value field of atomic.Uint32 etc.).
func (r *Run) firstScalarPtr(p PtrV) PtrV {
	for {
		switch x := (*r.slot(p)).(type) {
		case *StructV:
			p = p.child(len(x.f) - 1)
		default:
			return p
		}
	}
}

func (r *Run) firstScalar(p PtrV) int64 {
	q := r.firstScalarPtr(p)
	t, ok := (*r.slot(q)).(*Term)
	if !ok || !t.IsConst() {
		panic(engineErr("symbolic or non-scalar synchronisation state"))
	}
	return signExtend(t.CV, t.Sort.W)
}

type rkey struct{ o *Object } // reader-release clock of an RWMutex
type akey struct{ k slotKey } // release clock of an atomically accessed word

var _ = types.Typ
