package main

import (
	"fmt"
	"go/types"
	"math/big"
	"strings"

	"golang.org/x/tools/go/ssa"
)

func registerIntrinsics(e *Engine) {
	in := e.intrinsics
	simple := func(name string, f func(r *Run, args []Value) Value) {
		in[name] = func(r *Run, g *Goroutine, fv *FuncV, args []Value, retTo func(Value)) (Value, bool) {
			return f(r, args), true
		}
	}
	rt := rtPkg + "."

	// ------------------------------------------------------------ verifrt
	nondetBV := func(kind string, w int) func(r *Run, args []Value) Value {
		return func(r *Run, args []Value) Value {
			if r.vector != nil {
				return r.ctx.BVBig(w, r.nextVec(kind))
			}
			t := r.ctx.Var(fmt.Sprintf("n%d_%s", len(r.nondet), kind), bvSort(w))
			r.nondet = append(r.nondet, NondetRec{Kind: kind, Term: t})
			return t
		}
	}
	simple(rt+"NondetU8", nondetBV("u8", 8))
	simple(rt+"NondetU16", nondetBV("u16", 16))
	simple(rt+"NondetU32", nondetBV("u32", 32))
	simple(rt+"NondetU64", nondetBV("u64", 64))
	simple(rt+"NondetBool", func(r *Run, args []Value) Value {
		if r.vector != nil {
			return r.ctx.Bool(r.nextVec("bool").Sign() != 0)
		}
		t := r.ctx.Var(fmt.Sprintf("n%d_bool", len(r.nondet)), sortBool)
		r.nondet = append(r.nondet, NondetRec{Kind: "bool", Term: t})
		return t
	})
	natOrInt := func(kind string) func(r *Run, args []Value) Value {
		return func(r *Run, args []Value) Value {
			var t *Term
			if r.vector != nil {
				t = r.ctx.Int(r.nextVec(kind))
			} else {
				t = r.ctx.Var(fmt.Sprintf("n%d_%s", len(r.nondet), kind), sortInt)
				r.nondet = append(r.nondet, NondetRec{Kind: kind, Term: t})
				if kind == "nat" {
					r.addPC(r.ctx.ILe(r.ctx.IntI(0), t))
					r.nonNeg[t.id] = true
				}
			}
			return r.newBig(t)
		}
	}
	simple(rt+"NondetNat", natOrInt("nat"))
	simple(rt+"NondetInt", natOrInt("int"))
	simple(rt+"NondetBigExact", func(r *Run, args []Value) Value {
		n := int(r.concreteInt(args[0], "NondetBigExact length"))
		var t *Term
		if r.vector != nil {
			t = r.ctx.Int(r.nextVec("nat"))
			lo, hi := new(big.Int), pow256(n)
			if n > 0 {
				lo = pow256(n - 1)
			}
			if n == 0 && t.CI.Sign() != 0 || n > 0 && (t.CI.Cmp(lo) < 0 || t.CI.Cmp(hi) >= 0) {
				panic(pathEnd{"assume-false"})
			}
		} else {
			t = r.ctx.Var(fmt.Sprintf("n%d_nat", len(r.nondet)), sortInt)
			r.nondet = append(r.nondet, NondetRec{Kind: "nat", Term: t})
			if n == 0 {
				r.addPC(r.ctx.Eq(t, r.ctx.IntI(0)))
			} else {
				r.addPC(r.ctx.ILe(r.ctx.Int(pow256(n-1)), t))
				r.addPC(r.ctx.ILt(t, r.ctx.Int(pow256(n))))
			}
			r.bigLens[t.id] = n
			r.nonNeg[t.id] = true
		}
		return r.newBig(t)
	})
	simple(rt+"Choice", func(r *Run, args []Value) Value {
		n := r.concreteInt(args[0], "Choice arity")
		if n <= 0 {
			panic(engineErr("Choice(%d)", n))
		}
		var d int64
		if r.vector != nil {
			d = r.nextVec("choice").Int64()
		} else {
			d = r.decide(func() []int64 {
				as := make([]int64, n)
				for i := range as {
					as[i] = int64(i)
				}
				return as
			})
			r.nondet = append(r.nondet, NondetRec{Kind: "choice", Conc: d, N: n})
		}
		return r.intTerm(d)
	})
	simple(rt+"Assume", func(r *Run, args []Value) Value {
		c := args[0].(*Term)
		if c.IsConst() {
			if !c.CB {
				panic(pathEnd{"assume-false"})
			}
			return nil
		}
		if !r.inPrefix() {
			if r.check(c) != Sat {
				panic(pathEnd{"assume-false"})
			}
		}
		r.addPC(c)
		return nil
	})
	simple(rt+"Assert", func(r *Run, args []Value) Value {
		label := r.mustStr(args[0])
		c := args[1].(*Term)
		if r.inPrefix() {
			r.addPC(c)
			return nil
		}
		if c.IsConst() && c.CB {
			r.res.AssertsOK[label]++
			return nil
		}
		r.violation(label, "assert", "", c)
		if r.vector != nil {
			return nil // concrete run: continue like the native harness does
		}
		if c.IsConst() {
			panic(pathEnd{"assert-false"})
		}
		if r.check(c) != Sat {
			panic(pathEnd{"assert-false"})
		}
		r.addPC(c)
		return nil
	})
	simple(rt+"Reach", func(r *Run, args []Value) Value {
		label := r.mustStr(args[0])
		if r.inPrefix() {
			return nil
		}
		if _, ok := r.res.Reached[label]; !ok {
			if r.vector != nil {
				r.res.Reached[label] = r.vector
			} else if r.eng.needWitness(label) {
				r.res.Reached[label] = r.modelVector()
			} else {
				r.res.Reached[label] = nil
			}
		}
		return nil
	})
	simple(rt+"Known", func(r *Run, args []Value) Value {
		id := r.mustStr(args[0])
		r.known = append(r.known, knownRec{id, args[1].(*Term)})
		return nil
	})
	simple(rt+"Observe", func(r *Run, args []Value) Value {
		label := r.mustStr(args[0])
		var vals []string
		s := args[1].(SliceV)
		for i := 0; i < s.len; i++ {
			vals = append(vals, r.observeString(r.sliceElem(s, i)))
		}
		r.res.Observes = append(r.res.Observes, ObsRec{label, vals})
		return nil
	})
	simple(rt+"Bound", func(r *Run, args []Value) Value {
		name := r.mustStr(args[0])
		if v, ok := r.eng.bounds[name]; ok {
			return r.intTerm(int64(v))
		}
		return args[1]
	})
	simple(rt+"MaxMake", func(r *Run, args []Value) Value {
		return r.maxMakeTerm(func(string) bool { return true })
	})
	// MaxMakeAt(list, in): largest make length at call sites whose function name
	// contains one of the '|'-separated substrings (in=true) or none of them (in=false)
	simple(rt+"MaxMakeAt", func(r *Run, args []Value) Value {
		subs := strings.Split(r.mustStr(args[0]), "|")
		in := args[1].(*Term)
		if !in.IsConst() {
			panic(engineErr("MaxMakeAt: symbolic flag"))
		}
		return r.maxMakeTerm(func(s string) bool {
			match := false
			for _, sub := range subs {
				if sub != "" && strings.Contains(s, sub) {
					match = true
				}
			}
			return match == in.CB
		})
	})
	simple(rt+"Note", func(r *Run, args []Value) Value {
		if s, ok := r.strConcrete(args[0].(*StrV)); ok {
			r.notes = append(r.notes, s)
		}
		return nil
	})
	simple(rt+"And", func(r *Run, a []Value) Value { return r.ctx.And(a[0].(*Term), a[1].(*Term)) })
	simple(rt+"Or", func(r *Run, a []Value) Value { return r.ctx.Or(a[0].(*Term), a[1].(*Term)) })
	simple(rt+"Implies", func(r *Run, a []Value) Value { return r.ctx.Implies(a[0].(*Term), a[1].(*Term)) })
	simple(rt+"Iff", func(r *Run, a []Value) Value { return r.ctx.Eq(a[0].(*Term), a[1].(*Term)) })
	simple(rt+"EqBytes", func(r *Run, a []Value) Value {
		x, y := r.byteSliceTerms(a[0]), r.byteSliceTerms(a[1])
		if len(x) != len(y) {
			return r.ctx.Bool(false)
		}
		parts := make([]*Term, len(x))
		for i := range x {
			parts[i] = r.ctx.Eq(x[i], y[i])
		}
		return r.ctx.And(parts...)
	})
	simple(rt+"BigEq", func(r *Run, a []Value) Value { return r.ctx.Eq(r.bigOf(a[0]), r.bigOf(a[1])) })
	simple(rt+"BigLe", func(r *Run, a []Value) Value { return r.ctx.ILe(r.bigOf(a[0]), r.bigOf(a[1])) })

	registerBig(e, simple)
	registerStd(e, simple)
	registerCrypto(e, simple)
	registerSync(e)
}

func (e *Engine) needWitness(label string) bool { return true }

func (r *Run) nextVec(kind string) *big.Int {
	if r.vecPos >= len(r.vector) {
		panic(engineErr("replay vector exhausted (kind %s)", kind))
	}
	e := r.vector[r.vecPos]
	if e.K != kind {
		panic(engineErr("replay vector kind mismatch at %d: have %s want %s", r.vecPos, e.K, kind))
	}
	r.vecPos++
	v, ok := new(big.Int).SetString(e.V, 10)
	if !ok {
		panic(engineErr("bad vector value %q", e.V))
	}
	return v
}

func (r *Run) observeString(v Value) string {
	if i, ok := v.(IfaceV); ok {
		v = i.v
		if i.t == nil {
			return "<nil>"
		}
		if b, ok := i.t.Underlying().(*types.Basic); ok {
			if t, ok := v.(*Term); ok && t.IsConst() {
				if b.Info()&types.IsBoolean != 0 {
					return fmt.Sprint(t.CB)
				}
				w, signed := intWidth(b)
				if signed {
					return fmt.Sprint(signExtend(t.CV, w))
				}
				return fmt.Sprint(t.CV)
			}
		}
	}
	switch x := v.(type) {
	case *StrV:
		if s, ok := r.strConcrete(x); ok {
			return s
		}
	case PtrV:
		if !x.IsNil() {
			if b, ok := (*r.slot(x)).(*BigV); ok && b.t.IsConst() {
				return b.t.CI.String()
			}
		}
	case SliceV:
		// []byte
		var sb strings.Builder
		sb.WriteString("[")
		for i := 0; i < x.len; i++ {
			if i > 0 {
				sb.WriteString(" ")
			}
			if t, ok := r.sliceElem(x, i).(*Term); ok && t.IsConst() {
				fmt.Fprint(&sb, t.CV)
			} else {
				sb.WriteString("?")
			}
		}
		sb.WriteString("]")
		return sb.String()
	}
	return "?" + renderVal(v, 0)
}

// ---------------------------------------------------------------- math/big

func (r *Run) newBig(t *Term) PtrV {
	o := r.newObject(r.eng.bigIntType(), &BigV{t})
	return PtrV{obj: o}
}

func (e *Engine) bigIntType() types.Type {
	if p, ok := e.pkgs["math/big"]; ok {
		return p.Pkg.Scope().Lookup("Int").Type()
	}
	panic(engineErr("math/big not loaded"))
}

// bigOf returns the integer term of a *big.Int value (nil pointer panics like Go).
func (r *Run) bigOf(v Value) *Term {
	p := v.(PtrV)
	if p.IsNil() {
		panic(goPanic{kind: "nil-deref", msg: "invalid memory address or nil pointer dereference (nil *big.Int)"})
	}
	b, ok := (*r.slot(p)).(*BigV)
	if !ok {
		panic(engineErr("bigOf: slot holds %T", *r.slot(p)))
	}
	return b.t
}

func (r *Run) bigSet(v Value, t *Term) {
	p := v.(PtrV)
	if p.IsNil() {
		panic(goPanic{kind: "nil-deref", msg: "invalid memory address or nil pointer dereference (nil *big.Int)"})
	}
	*r.slot(p) = &BigV{t}
}

func pow256(n int) *big.Int { return new(big.Int).Lsh(big.NewInt(1), uint(8*n)) }

// bigByteLen decides the byte length of |v| (0..maxBigBytes), forking.
func (r *Run) bigByteLen(abs *Term) int {
	c := r.ctx
	if abs.IsConst() {
		return (abs.CI.BitLen() + 7) / 8
	}
	if n, ok := r.bigLens[abs.id]; ok {
		return n
	}
	max := r.eng.maxBigBytes()
	bs, fromBytes := r.bytesOfBig[abs.id]
	for n := 0; n <= max; n++ {
		cond := c.ILt(abs, c.Int(pow256(n)))
		if fromBytes {
			// |v| < 256^n  <=>  all bytes above the low n are zero (bit-vector form)
			cond = c.Bool(true)
			for i := 0; i < len(bs)-n; i++ {
				cond = c.And(cond, c.Eq(bs[i], c.BV(8, 0)))
			}
		}
		if r.branch(cond) {
			r.bigLens[abs.id] = n
			return n
		}
	}
	panic(engineErr("big integer longer than %d bytes (bound on encoded amounts)", max))
}

func (e *Engine) maxBigBytes() int { return 40 }

// bigBytes returns the big-endian bytes of |v|.
func (r *Run) bigBytes(abs *Term) []*Term {
	c := r.ctx
	n := r.bigByteLen(abs)
	out := make([]*Term, n)
	if abs.IsConst() {
		bs := abs.CI.Bytes()
		for i := range out {
			out[i] = c.BV(8, uint64(bs[i]))
		}
		return out
	}
	// if abs is itself a sum of bytes (SetBytes of symbolic bytes) reuse them
	if bs, ok := r.bytesOfBig[abs.id]; ok {
		// strip leading bytes beyond n (they are zero on this path)
		if len(bs) >= n {
			return bs[len(bs)-n:]
		}
	}
	// fresh bytes b_i with abs = sum b_i * 256^(n-1-i)
	sum := c.IntI(0)
	for i := 0; i < n; i++ {
		r.freshCnt++
		b := c.Var(fmt.Sprintf("bb%d_%d", abs.id, i), bvSort(8))
		out[i] = b
		sum = c.IAdd(sum, c.IMul(c.BV2Nat(b), c.Int(pow256(n-1-i))))
	}
	r.addPC(c.Eq(abs, sum))
	return out
}

func (r *Run) bigFromBytes(bs []*Term) *Term {
	c := r.ctx
	sum := c.IntI(0)
	n := len(bs)
	allConst := true
	for i, b := range bs {
		if !b.IsConst() {
			allConst = false
		}
		sum = c.IAdd(sum, c.IMul(c.BV2Nat(b), c.Int(pow256(n-1-i))))
	}
	r.nonNeg[sum.id] = true
	if !allConst {
		if r.bytesOfBig == nil {
			r.bytesOfBig = map[int][]*Term{}
		}
		r.bytesOfBig[sum.id] = append([]*Term(nil), bs...)
	}
	return sum
}

func (r *Run) iabs(t *Term) *Term {
	c := r.ctx
	if t.IsConst() {
		return c.Int(new(big.Int).Abs(t.CI))
	}
	if r.nonNeg[t.id] {
		return t
	}
	return c.Ite(c.ILt(t, c.IntI(0)), c.INeg(t), t)
}

func registerBig(e *Engine, simple func(string, func(*Run, []Value) Value)) {
	m := func(name string) string { return "(*math/big.Int)." + name }
	simple("math/big.NewInt", func(r *Run, a []Value) Value {
		t := a[0].(*Term)
		c := r.ctx
		if t.IsConst() {
			return r.newBig(c.IntI(signExtend(t.CV, 64)))
		}
		// signed 64-bit to Int
		u := c.BV2Nat(t)
		v := c.Ite(c.BVSlt(t, c.BV(64, 0)), c.ISub(u, c.Int(new(big.Int).Lsh(big.NewInt(1), 64))), u)
		return r.newBig(v)
	})
	simple(m("Set"), func(r *Run, a []Value) Value { r.bigSet(a[0], r.bigOf(a[1])); return a[0] })
	simple(m("Add"), func(r *Run, a []Value) Value {
		r.bigSet(a[0], r.ctx.IAdd(r.bigOf(a[1]), r.bigOf(a[2])))
		return a[0]
	})
	simple(m("Sub"), func(r *Run, a []Value) Value {
		r.bigSet(a[0], r.ctx.ISub(r.bigOf(a[1]), r.bigOf(a[2])))
		return a[0]
	})
	simple(m("Neg"), func(r *Run, a []Value) Value { r.bigSet(a[0], r.ctx.INeg(r.bigOf(a[1]))); return a[0] })
	simple(m("Abs"), func(r *Run, a []Value) Value { r.bigSet(a[0], r.iabs(r.bigOf(a[1]))); return a[0] })
	simple(m("Mul"), func(r *Run, a []Value) Value {
		x, y := r.bigOf(a[1]), r.bigOf(a[2])
		if !x.IsConst() && !y.IsConst() {
			panic(engineErr("symbolic big.Int multiplication"))
		}
		r.bigSet(a[0], r.ctx.IMul(x, y))
		return a[0]
	})
	simple(m("Cmp"), func(r *Run, a []Value) Value {
		c := r.ctx
		x, y := r.bigOf(a[0]), r.bigOf(a[1])
		return c.Ite(c.ILt(x, y), c.BV(64, ^uint64(0)), c.Ite(c.Eq(x, y), c.BV(64, 0), c.BV(64, 1)))
	})
	simple(m("Sign"), func(r *Run, a []Value) Value {
		c := r.ctx
		x := r.bigOf(a[0])
		z := c.IntI(0)
		return c.Ite(c.ILt(x, z), c.BV(64, ^uint64(0)), c.Ite(c.Eq(x, z), c.BV(64, 0), c.BV(64, 1)))
	})
	simple(m("SetInt64"), func(r *Run, a []Value) Value {
		t := a[1].(*Term)
		if !t.IsConst() {
			panic(engineErr("SetInt64 of symbolic value"))
		}
		r.bigSet(a[0], r.ctx.IntI(signExtend(t.CV, 64)))
		return a[0]
	})
	simple(m("SetUint64"), func(r *Run, a []Value) Value {
		r.bigSet(a[0], r.ctx.BV2Nat(a[1].(*Term)))
		return a[0]
	})
	simple(m("Uint64"), func(r *Run, a []Value) Value {
		x := r.bigOf(a[0])
		return r.ctx.Int2BV(r.iabs(x), 64)
	})
	simple(m("Int64"), func(r *Run, a []Value) Value {
		x := r.bigOf(a[0])
		return r.ctx.Int2BV(x, 64)
	})
	simple(m("IsUint64"), func(r *Run, a []Value) Value {
		c := r.ctx
		x := r.bigOf(a[0])
		return c.And(c.ILe(c.IntI(0), x), c.ILt(x, c.Int(new(big.Int).Lsh(big.NewInt(1), 64))))
	})
	simple(m("Bytes"), func(r *Run, a []Value) Value {
		return r.bytesToSlice(r.bigBytes(r.iabs(r.bigOf(a[0]))))
	})
	simple(m("SetBytes"), func(r *Run, a []Value) Value {
		r.bigSet(a[0], r.bigFromBytes(r.byteSliceTerms(a[1])))
		return a[0]
	})
	simple(m("BitLen"), func(r *Run, a []Value) Value {
		x := r.iabs(r.bigOf(a[0]))
		if x.IsConst() {
			return r.intTerm(int64(x.CI.BitLen()))
		}
		// symbolic: the byte length forks (as Bytes does); the bit length of the
		// top byte is an ite chain
		bs := r.bigBytes(x)
		if len(bs) == 0 {
			return r.intTerm(0)
		}
		c := r.ctx
		top := bs[0]
		bits := c.BV(64, 0)
		for k := 1; k <= 8; k++ {
			// top >= 2^(k-1)  =>  at least k bits
			bits = c.Ite(c.BVUle(c.BV(8, uint64(1)<<uint(k-1)), top), c.BV(64, uint64(k)), bits)
		}
		return c.BVAdd(c.BV(64, uint64(8*(len(bs)-1))), bits)
	})
	simple(m("FillBytes"), func(r *Run, a []Value) Value {
		bs := r.bigBytes(r.iabs(r.bigOf(a[0])))
		dst := a[1].(SliceV)
		if len(bs) > dst.len {
			panic(goPanic{kind: "explicit", msg: "math/big: buffer too small to fit value"})
		}
		arr := r.sliceArr(dst)
		for i := 0; i < dst.len; i++ {
			arr.e[dst.off+i] = r.ctx.BV(8, 0)
		}
		for i, b := range bs {
			arr.e[dst.off+dst.len-len(bs)+i] = b
		}
		return dst
	})
	simple(m("String"), func(r *Run, a []Value) Value {
		p := a[0].(PtrV)
		if p.IsNil() {
			return &StrV{s: "<nil>"}
		}
		x := r.bigOf(a[0])
		if x.IsConst() {
			return &StrV{s: x.CI.String()}
		}
		return &StrV{opaque: true}
	})
	simple(m("Lsh"), func(r *Run, a []Value) Value {
		n := r.concreteInt(a[2], "Lsh count")
		r.bigSet(a[0], r.ctx.IMul(r.bigOf(a[1]), r.ctx.Int(new(big.Int).Lsh(big.NewInt(1), uint(n)))))
		return a[0]
	})
	simple(m("Rsh"), func(r *Run, a []Value) Value {
		n := r.concreteInt(a[2], "Rsh count")
		x := r.bigOf(a[1])
		if x.IsConst() {
			r.bigSet(a[0], r.ctx.Int(new(big.Int).Rsh(x.CI, uint(n))))
			return a[0]
		}
		// floor division for all signs matches Rsh (arithmetic shift)
		r.bigSet(a[0], r.ctx.IDiv(x, r.ctx.Int(new(big.Int).Lsh(big.NewInt(1), uint(n)))))
		return a[0]
	})
}

var _ = ssa.NewProgram
