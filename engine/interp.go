package main

// The SSA interpreter: explicit frames, one instruction per step, goroutines
// as coroutines.

import (
	"fmt"
	"go/constant"
	"go/token"
	"go/types"
	"sync"
	"sync/atomic"

	"golang.org/x/tools/go/ssa"
)

type fnInfo struct {
	idx    map[ssa.Value]int
	nreg   int
	name   string
	record bool
}

var fnInfoCache sync.Map // *ssa.Function -> *fnInfo

var constCounter atomic.Int64 // global numbering of *ssa.Const operands

func getFnInfo(fn *ssa.Function) *fnInfo {
	if v, ok := fnInfoCache.Load(fn); ok {
		return v.(*fnInfo)
	}
	fi := &fnInfo{idx: map[ssa.Value]int{}}
	n := 0
	for _, p := range fn.Params {
		fi.idx[p] = n
		n++
	}
	for _, p := range fn.FreeVars {
		fi.idx[p] = n
		n++
	}
	for _, b := range fn.Blocks {
		for _, in := range b.Instrs {
			if v, ok := in.(ssa.Value); ok {
				fi.idx[v] = n
				n++
			}
		}
	}
	fi.nreg = n
	var rands []*ssa.Value
	for _, b := range fn.Blocks {
		for _, in := range b.Instrs {
			rands = in.Operands(rands[:0])
			for _, op := range rands {
				if op == nil || *op == nil {
					continue
				}
				if k, ok := (*op).(*ssa.Const); ok {
					if _, seen := fi.idx[k]; !seen {
						fi.idx[k] = -int(constCounter.Add(1))
					}
				}
			}
		}
	}
	fi.name = fn.String()
	fi.record = fn.Pkg != nil || fn.Origin() != nil || fn.Parent() != nil || fn.Synthetic != ""
	fnInfoCache.Store(fn, fi)
	return fi
}

type deferRec struct {
	fn   *FuncV
	args []Value
}

type Frame struct {
	fn        *ssa.Function
	info      *fnInfo
	regs      []Value
	block     *ssa.BasicBlock
	prev      *ssa.BasicBlock
	pc        int
	defers    []deferRec
	retTo     func(res Value)
	unwinding bool // running deferred calls because of a panic
	isDefer   bool // this frame is a deferred call
	nested    bool // frame pushed by callSync
	done      bool
	result    Value
}

type panicState struct {
	p     goPanic
	stack string
}

type Goroutine struct {
	id       int
	stack    []*Frame
	panic    *panicState
	pending  *panicState
	blocked  *blockInfo
	finished bool
	name     string
	vc       VC
	readySeq int // when the goroutine last became runnable (created or woken)
}

func (r *Run) get(fr *Frame, v ssa.Value) Value {
	if i, ok := fr.info.idx[v]; ok {
		if i >= 0 {
			return fr.regs[i]
		}
		return r.wk.constVal(r, -i, v.(*ssa.Const))
	}
	switch x := v.(type) {
	case *ssa.Const:
		return r.constVal(x)
	case *ssa.Function:
		return &FuncV{fn: x}
	case *ssa.Global:
		return PtrV{obj: r.global(x)}
	case *ssa.Builtin:
		return &FuncV{intr: "builtin:" + x.Name()}
	}
	panic(engineErr("get: unknown value %s (%T) in %s", v.Name(), v, fr.fn))
}

// Worker holds what is reused from path to path by one exploration worker.
type Worker struct {
	solver    *Solver
	ctx       *Ctx
	gen       uint32
	constVals []Value
	constGen  []uint32
	regPool   map[int][][]Value
	funcs     map[*ssa.Function]bool
	intr      map[string]bool
}

func (w *Worker) constVal(r *Run, id int, k *ssa.Const) Value {
	if id >= len(w.constVals) {
		n := int(constCounter.Load()) + 1024
		nv := make([]Value, n)
		ng := make([]uint32, n)
		copy(nv, w.constVals)
		copy(ng, w.constGen)
		w.constVals, w.constGen = nv, ng
	}
	if w.constGen[id] == w.gen {
		return w.constVals[id]
	}
	v := r.constVal(k)
	switch v.(type) {
	case *Term, *StrV, FloatV:
		w.constVals[id] = v
		w.constGen[id] = w.gen
	}
	return v
}

func (r *Run) set(fr *Frame, v ssa.Value, val Value) {
	fr.regs[fr.info.idx[v]] = val
}

func (r *Run) constVal(k *ssa.Const) Value {
	t := k.Type()
	if k.Value == nil {
		return r.zero(t)
	}
	switch u := t.Underlying().(type) {
	case *types.Basic:
		switch {
		case u.Info()&types.IsBoolean != 0:
			return r.ctx.Bool(constant.BoolVal(k.Value))
		case u.Info()&types.IsInteger != 0:
			w, _ := intWidth(u)
			if i, ok := constant.Int64Val(constant.ToInt(k.Value)); ok {
				return r.ctx.BV(w, uint64(i))
			}
			ui, _ := constant.Uint64Val(constant.ToInt(k.Value))
			return r.ctx.BV(w, ui)
		case u.Info()&types.IsFloat != 0:
			f, _ := constant.Float64Val(k.Value)
			return FloatV(f)
		case u.Info()&types.IsString != 0:
			return &StrV{s: constant.StringVal(k.Value)}
		}
	}
	panic(engineErr("const of type %v", t))
}

func (r *Run) global(g *ssa.Global) *Object {
	if o, ok := r.globals[g]; ok {
		return o
	}
	pkg := g.Pkg.Pkg.Path()
	elem := g.Type().(*types.Pointer).Elem()
	o := r.newObject(elem, r.zero(elem))
	o.name = g.String()
	if !r.eng.initPkgs[pkg] && !r.inInit {
		// a global of a package whose initialiser is not run: usable only if
		// the engine has an explicit model for it
		if mv, ok := r.modelGlobal(g); ok {
			o.val = mv
		} else {
			o.val = OpaqueV{"global " + g.String() + " (package init not run)"}
		}
	}
	r.globals[g] = o
	return o
}

// ---------------------------------------------------------------- goroutines / frames

func (r *Run) newGoroutine(name string) *Goroutine {
	r.nextGor++
	r.readyCnt++
	g := &Goroutine{id: r.nextGor, name: name, readySeq: r.readyCnt}
	r.gors = append(r.gors, g)
	return g
}

func (r *Run) pushFrame(g *Goroutine, fv *FuncV, args []Value, retTo func(Value)) *Frame {
	fn := fv.fn
	if len(fn.Blocks) == 0 {
		if r.inInit {
			// unmodelled external during package initialisation: opaque result
			if retTo != nil {
				res := fn.Signature.Results()
				switch res.Len() {
				case 0:
					retTo(nil)
				case 1:
					retTo(OpaqueV{"result of " + fn.String()})
				default:
					tv := make(TupleV, res.Len())
					for i := range tv {
						tv[i] = OpaqueV{"result of " + fn.String()}
					}
					retTo(tv)
				}
			}
			return nil
		}
		panic(engineErr("unsupported external: %s", fn.String()))
	}
	if len(g.stack) > 400 {
		panic(engineErr("call depth exceeded in %s", fn.String()))
	}
	fi := getFnInfo(fn)
	var regs []Value
	if pool := r.wk.regPool[fi.nreg]; len(pool) > 0 {
		regs = pool[len(pool)-1]
		r.wk.regPool[fi.nreg] = pool[:len(pool)-1]
		clear(regs)
	} else {
		regs = make([]Value, fi.nreg)
	}
	fr := &Frame{fn: fn, info: fi, regs: regs, block: fn.Blocks[0], retTo: retTo}
	if len(args) != len(fn.Params) {
		panic(engineErr("call %s: %d args for %d params", fn, len(args), len(fn.Params)))
	}
	for i, p := range fn.Params {
		fr.regs[fi.idx[p]] = args[i]
	}
	for i, p := range fn.FreeVars {
		fr.regs[fi.idx[p]] = fv.env[i]
	}
	g.stack = append(g.stack, fr)
	if fi.record && !r.inInit {
		r.wk.funcs[fn] = true
	}
	return fr
}

// invoke performs a call of fv with args on goroutine g; the result is passed
// to retTo (may be nil). Intrinsics complete immediately.
func (r *Run) invoke(g *Goroutine, fv *FuncV, args []Value, retTo func(Value)) {
	if fv == nil {
		panic(goPanic{kind: "nil-deref", msg: "call of nil function"})
	}
	if fv.intr != "" {
		res := r.callBuiltin(g, fv.intr, args, nil)
		if retTo != nil {
			retTo(res)
		}
		return
	}
	if fv.fn.Name() == "init" && fv.fn.Synthetic != "" && fv.fn.Pkg != nil && !r.eng.initPkgs[fv.fn.Pkg.Pkg.Path()] {
		if retTo != nil {
			retTo(nil)
		}
		return
	}
	if r.inInit && fv.fn.Pkg != nil && isTestSupportPkg(fv.fn.Pkg.Pkg.Path()) {
		// test-support packages (randomizers) are not part of any claim
		if retTo != nil {
			res := fv.fn.Signature.Results()
			switch res.Len() {
			case 0:
				retTo(nil)
			case 1:
				retTo(OpaqueV{"result of " + fv.fn.String()})
			default:
				tv := make(TupleV, res.Len())
				for i := range tv {
					tv[i] = OpaqueV{"result of " + fv.fn.String()}
				}
				retTo(tv)
			}
		}
		return
	}
	r.eng.intrMu.RLock()
	h, ok := r.eng.intrByFn[fv.fn]
	r.eng.intrMu.RUnlock()
	if !ok {
		h = r.eng.intrinsics[fv.fn.String()]
		if h == nil {
			h = prefixIntrinsic(r.eng, fv.fn)
		}
		r.eng.intrMu.Lock()
		r.eng.intrByFn[fv.fn] = h
		r.eng.intrMu.Unlock()
	}
	if h != nil {
		r.wk.intr[getFnInfo2(fv.fn)] = true
		res, handled := h(r, g, fv, args, retTo)
		if handled {
			if retTo != nil && res != (deferredResult{}) {
				retTo(res)
			}
			return
		}
	}
	r.pushFrame(g, fv, args, retTo)
}

func getFnInfo2(fn *ssa.Function) string {
	if v, ok := fnNameCache.Load(fn); ok {
		return v.(string)
	}
	n := fn.String()
	fnNameCache.Store(fn, n)
	return n
}

var fnNameCache sync.Map

// deferredResult is returned by intrinsics that arrange for retTo to be
// called later themselves (blocking operations, callbacks).
type deferredResult struct{}

// callSync runs fv to completion on the current goroutine (used by intrinsics
// that need a callback result).
func (r *Run) callSync(g *Goroutine, fv *FuncV, args []Value) Value {
	var out Value
	got := false
	depth := len(g.stack)
	r.invoke(g, fv, args, func(v Value) { out = v; got = true })
	for !got {
		if len(g.stack) <= depth {
			if g.panic != nil {
				panic(nestedPanic{})
			}
			break
		}
		if g.blocked != nil {
			panic(engineErr("blocking operation inside a synchronous callback (%s)", fv.fn))
		}
		r.stepGoroutine(g, depth)
		if g.panic != nil && len(g.stack) <= depth {
			panic(nestedPanic{})
		}
	}
	return out
}

// nestedPanic signals that a Go panic escaped a callSync; the goroutine's
// panic state is already set.
type nestedPanic struct{}

// ---------------------------------------------------------------- main loop

// runToCompletion runs all goroutines until the main one finishes or nothing
// can run.
func (r *Run) runMain(g *Goroutine) {
	for {
		if g.finished {
			return
		}
		cur := r.pickGoroutine()
		if cur == nil {
			// nothing runnable: fire a timer or report deadlock
			if r.fireTimer() {
				continue
			}
			panic(deadlock{})
		}
		r.cur = cur
		r.runSlice(cur)
	}
}

type deadlock struct{}

// processCrash: a goroutine other than the harness's main one died panicking.
type processCrash struct{ p *panicState }

// runSlice runs goroutine g until it blocks, finishes or yields.
func (r *Run) runSlice(g *Goroutine) {
	for !g.finished && g.blocked == nil {
		r.stepGoroutine(g, 0)
		if r.yield {
			r.yield = false
			return
		}
	}
}

// stepGoroutine executes one step (instruction or unwinding action) of g.
// floor is the stack depth below which unwinding must not proceed (callSync).
func (r *Run) stepGoroutine(g *Goroutine, floor int) {
	r.steps++
	if r.steps > r.maxStep {
		panic(engineErr("unwinding bound: more than %d steps on one path", r.maxStep))
	}
	if len(g.stack) == 0 {
		g.finished = true
		return
	}
	fr := g.stack[len(g.stack)-1]
	if g.panic != nil {
		r.unwindStep(g, fr, floor)
		if g.finished && g.panic != nil && g.id != 1 && !r.inInit {
			// an unrecovered panic in any goroutine terminates the process
			panic(processCrash{g.panic})
		}
		return
	}
	if fr.unwinding {
		// a deferred call recovered the panic
		fr.unwinding = false
		if fr.fn.Recover != nil {
			fr.prev = fr.block
			fr.block = fr.fn.Recover
			fr.pc = 0
			return
		}
		r.returnFrom(g, fr, r.zeroResults(fr.fn))
		return
	}
	defer func() {
		if e := recover(); e != nil {
			switch p := e.(type) {
			case goPanic:
				g.panic = &panicState{p: p, stack: r.stackString()}
			case nestedPanic:
				// state already set
			default:
				panic(e)
			}
		}
	}()
	in := fr.block.Instrs[fr.pc]
	fr.pc++
	r.exec(g, fr, in)
}

func (r *Run) zeroResults(fn *ssa.Function) Value {
	res := fn.Signature.Results()
	switch res.Len() {
	case 0:
		return nil
	case 1:
		return r.zero(res.At(0).Type())
	}
	return r.zero(res)
}

func (r *Run) unwindStep(g *Goroutine, fr *Frame, floor int) {
	if n := len(fr.defers); n > 0 {
		d := fr.defers[n-1]
		fr.defers = fr.defers[:n-1]
		fr.unwinding = true
		func() {
			defer func() {
				if e := recover(); e != nil {
					if p, ok := e.(goPanic); ok {
						g.panic = &panicState{p: p, stack: r.stackString()}
						return
					}
					if _, ok := e.(nestedPanic); ok {
						return
					}
					panic(e)
				}
			}()
			// the deferred call runs with the panic pending; recover() clears it
			saved := g.panic
			g.panic = nil
			g.pending = saved
			r.invokeDeferred(g, d, fr)
		}()
		return
	}
	// no more defers: pop the frame
	g.stack = g.stack[:len(g.stack)-1]
	if len(g.stack) <= floor || len(g.stack) == 0 {
		if len(g.stack) == 0 {
			g.finished = true
		}
		return
	}
}

// invokeDeferred runs a deferred call d of frame fr. While it runs, g.pending
// holds the panic being unwound (if any); when it returns without recover the
// panic is re-raised.
func (r *Run) invokeDeferred(g *Goroutine, d deferRec, owner *Frame) {
	pend := g.pending
	after := func(Value) {
		if pend != nil && g.pending == pend {
			// not recovered: continue panicking
			g.panic = pend
			g.pending = nil
		}
	}
	if pend == nil {
		after = nil
	}
	before := len(g.stack)
	r.invoke(g, d.fn, d.args, after)
	if len(g.stack) > before {
		g.stack[len(g.stack)-1].isDefer = true
	}
}

func (r *Run) returnFrom(g *Goroutine, fr *Frame, res Value) {
	g.stack = g.stack[:len(g.stack)-1]
	if len(fr.defers) == 0 && !fr.unwinding {
		r.wk.regPool[fr.info.nreg] = append(r.wk.regPool[fr.info.nreg], fr.regs)
		fr.regs = nil
	}
	if fr.retTo != nil {
		fr.retTo(res)
	}
	if len(g.stack) == 0 {
		g.finished = true
	}
}

// ---------------------------------------------------------------- instructions

func (r *Run) exec(g *Goroutine, fr *Frame, in ssa.Instruction) {
	switch x := in.(type) {
	case *ssa.DebugRef:
	case *ssa.Alloc:
		elem := x.Type().(*types.Pointer).Elem()
		o := r.newObject(elem, r.zero(elem))
		r.set(fr, x, PtrV{obj: o})
	case *ssa.BinOp:
		r.set(fr, x, r.binop(x.Op, r.get(fr, x.X), r.get(fr, x.Y), x.X.Type(), x.Y.Type()))
	case *ssa.UnOp:
		r.execUnOp(g, fr, x)
	case *ssa.Call:
		r.execCall(g, fr, x)
	case *ssa.ChangeInterface:
		r.set(fr, x, r.get(fr, x.X))
	case *ssa.ChangeType:
		r.set(fr, x, r.get(fr, x.X))
	case *ssa.Convert:
		r.set(fr, x, r.convert(r.get(fr, x.X), x.X.Type(), x.Type()))
	case *ssa.Defer:
		fv, args := r.prepareCall(fr, &x.Call)
		fr.defers = append(fr.defers, deferRec{fv, args})
	case *ssa.RunDefers:
		if n := len(fr.defers); n > 0 {
			d := fr.defers[n-1]
			fr.defers = fr.defers[:n-1]
			fr.pc-- // come back for the remaining ones
			g.pending = nil
			r.invokeDeferred(g, d, fr)
		}
	case *ssa.Extract:
		r.set(fr, x, r.get(fr, x.Tuple).(TupleV)[x.Index])
	case *ssa.Field:
		r.set(fr, x, copyVal(r.get(fr, x.X).(*StructV).f[x.Field]))
	case *ssa.FieldAddr:
		p := r.get(fr, x.X).(PtrV)
		if p.IsNil() {
			panic(goPanic{kind: "nil-deref", msg: "invalid memory address or nil pointer dereference"})
		}
		r.set(fr, x, p.child(x.Field))
	case *ssa.Go:
		fv, args := r.prepareCall(fr, &x.Call)
		ng := r.newGoroutine(fmt.Sprintf("go@%s", fr.fn.Name()))
		r.raceFork(g, ng)
		r.invoke(ng, fv, args, nil)
		if len(ng.stack) == 0 {
			ng.finished = true
		}
		r.schedPoint("go")
	case *ssa.If:
		c := r.get(fr, x.Cond).(*Term)
		taken := r.branch(c)
		fr.prev = fr.block
		if taken {
			fr.block = fr.block.Succs[0]
		} else {
			fr.block = fr.block.Succs[1]
		}
		fr.pc = 0
	case *ssa.Jump:
		fr.prev = fr.block
		fr.block = fr.block.Succs[0]
		fr.pc = 0
	case *ssa.Index:
		r.execIndex(fr, x)
	case *ssa.IndexAddr:
		r.execIndexAddr(fr, x)
	case *ssa.Lookup:
		if r.race.on {
			if m, ok := r.get(fr, x.X).(*MapV); ok && m != nil {
				r.raceAccess(g, slotKey{isMap: m, p0: -1, p1: -1}, false, x)
			}
		}
		r.execLookup(fr, x)
	case *ssa.MakeChan:
		n := r.concreteInt(r.get(fr, x.Size), "chan size")
		r.set(fr, x, r.newChan(int(n)))
	case *ssa.MakeClosure:
		fn := x.Fn.(*ssa.Function)
		env := make([]Value, len(x.Bindings))
		for i, b := range x.Bindings {
			env[i] = r.get(fr, b)
		}
		r.set(fr, x, &FuncV{fn: fn, env: env})
	case *ssa.MakeInterface:
		r.set(fr, x, IfaceV{t: x.X.Type(), v: r.get(fr, x.X)})
	case *ssa.MakeMap:
		if x.Reserve != nil {
			if rv, ok := r.get(fr, x.Reserve).(*Term); ok {
				_, rs, _ := isIntType(x.Reserve.Type())
				r.noteMake(r.ctx.Resize(rv, 64, rs))
			}
		}
		r.nextMap++
		r.set(fr, x, &MapV{id: r.nextMap, typ: x.Type().Underlying().(*types.Map)})
	case *ssa.MakeSlice:
		r.execMakeSlice(fr, x)
	case *ssa.MapUpdate:
		m := r.get(fr, x.Map).(*MapV)
		if m == nil {
			panic(goPanic{kind: "nil-map", msg: "assignment to entry in nil map"})
		}
		if r.race.on {
			r.raceAccess(g, slotKey{isMap: m, p0: -1, p1: -1}, true, x)
		}
		r.mapStore(m, r.get(fr, x.Key), r.get(fr, x.Value))
	case *ssa.Next:
		r.execNext(fr, x)
	case *ssa.Range:
		if r.race.on {
			if m, ok := r.get(fr, x.X).(*MapV); ok && m != nil {
				r.raceAccess(g, slotKey{isMap: m, p0: -1, p1: -1}, false, x)
			}
		}
		r.execRange(fr, x)
	case *ssa.Panic:
		v := r.get(fr, x.X)
		panic(goPanic{kind: "explicit", msg: r.panicMsg(v), val: v})
	case *ssa.Phi:
		// handled at block entry: evaluate all phis of the block atomically
		r.execPhis(fr, x)
	case *ssa.Return:
		var res Value
		switch len(x.Results) {
		case 0:
		case 1:
			res = r.get(fr, x.Results[0])
		default:
			tv := make(TupleV, len(x.Results))
			for i, v := range x.Results {
				tv[i] = r.lateLoad(fr, v, x)
			}
			res = tv
		}
		r.returnFrom(g, fr, res)
	case *ssa.Select:
		r.execSelect(g, fr, x)
	case *ssa.Send:
		r.execSend(g, fr, x)
	case *ssa.Slice:
		r.execSlice(fr, x)
	case *ssa.Store:
		if r.race.on {
			if p := r.get(fr, x.Addr).(PtrV); p.obj != nil {
				r.raceAccess(g, keyOf(p), true, x)
			}
		}
		r.store(r.get(fr, x.Addr).(PtrV), r.get(fr, x.Val))
	case *ssa.TypeAssert:
		r.execTypeAssert(fr, x)
	case *ssa.SliceToArrayPointer:
		s := r.get(fr, x.X).(SliceV)
		if s.IsNil() {
			r.set(fr, x, PtrV{})
			return
		}
		at := x.Type().(*types.Pointer).Elem().Underlying().(*types.Array)
		if int(at.Len()) > s.len {
			panic(goPanic{kind: "slice", msg: "cannot convert slice to array pointer: length"})
		}
		// only whole-array views are representable
		arr := (*r.slot(s.base)).(*ArrayV)
		if s.off != 0 || int(at.Len()) != len(arr.e) {
			panic(engineErr("SliceToArrayPointer of a partial view"))
		}
		r.set(fr, x, s.base)
	default:
		panic(engineErr("unsupported instruction %T", in))
	}
}

func (r *Run) execPhis(fr *Frame, first *ssa.Phi) {
	// find index of predecessor
	idx := -1
	for i, p := range fr.block.Preds {
		if p == fr.prev {
			idx = i
			break
		}
	}
	if idx < 0 {
		panic(engineErr("phi: predecessor not found"))
	}
	// evaluate all leading phis with the old register values
	var phis []*ssa.Phi
	var vals []Value
	for _, in := range fr.block.Instrs {
		p, ok := in.(*ssa.Phi)
		if !ok {
			break
		}
		phis = append(phis, p)
		vals = append(vals, r.get(fr, p.Edges[idx]))
	}
	for i, p := range phis {
		r.set(fr, p, vals[i])
	}
	fr.pc = len(phis)
}

func (r *Run) panicMsg(v Value) string {
	if i, ok := v.(IfaceV); ok {
		if s, ok := i.v.(*StrV); ok {
			if c, ok := r.strConcrete(s); ok {
				return c
			}
			return "<formatted message>"
		}
		if i.t != nil {
			return "panic value of type " + i.t.String()
		}
	}
	return "panic"
}

func (r *Run) execUnOp(g *Goroutine, fr *Frame, x *ssa.UnOp) {
	v := r.get(fr, x.X)
	switch x.Op {
	case token.MUL:
		if r.race.on {
			if p := v.(PtrV); p.obj != nil {
				r.raceAccess(g, keyOf(p), false, x)
			}
		}
		r.set(fr, x, r.load(v.(PtrV)))
	case token.NOT:
		r.set(fr, x, r.ctx.Not(v.(*Term)))
	case token.SUB:
		switch t := v.(type) {
		case *Term:
			r.set(fr, x, r.ctx.BVNeg(t))
		case FloatV:
			r.set(fr, x, -t)
		default:
			panic(engineErr("neg of %T", v))
		}
	case token.XOR:
		r.set(fr, x, r.ctx.BVNot(v.(*Term)))
	case token.ARROW:
		r.execRecv(g, fr, x, v)
	default:
		panic(engineErr("unop %v", x.Op))
	}
}

// prepareCall evaluates the callee and arguments of a call.
func (r *Run) prepareCall(fr *Frame, c *ssa.CallCommon) (*FuncV, []Value) {
	var args []Value
	var fv *FuncV
	if c.IsInvoke() {
		recv := r.get(fr, c.Value).(IfaceV)
		if recv.t == nil {
			panic(goPanic{kind: "nil-deref", msg: "method call on nil interface (" + c.Method.Name() + ")"})
		}
		fn := r.lookupMethod(recv.t, c.Method)
		fv = &FuncV{fn: fn}
		args = append(args, recv.v)
	} else {
		switch f := c.Value.(type) {
		case *ssa.Builtin:
			fv = &FuncV{intr: "builtin:" + f.Name()}
		case *ssa.Function:
			fv = &FuncV{fn: f}
		default:
			fv, _ = r.get(fr, c.Value).(*FuncV)
		}
	}
	for _, a := range c.Args {
		args = append(args, r.get(fr, a))
	}
	return fv, args
}

func (r *Run) lookupMethod(t types.Type, m *types.Func) *ssa.Function {
	ms := r.eng.prog.MethodSets.MethodSet(t)
	sel := ms.Lookup(m.Pkg(), m.Name())
	if sel == nil {
		panic(engineErr("method %s not found on %v", m.Name(), t))
	}
	fn := r.eng.prog.MethodValue(sel)
	if fn == nil {
		panic(engineErr("no function for method %s of %v", m.Name(), t))
	}
	return fn
}

func (r *Run) execCall(g *Goroutine, fr *Frame, x *ssa.Call) {
	fv, args := r.prepareCall(fr, &x.Call)
	if fv != nil && fv.intr != "" {
		r.set(fr, x, r.callBuiltin(g, fv.intr, args, &x.Call))
		return
	}
	r.invoke(g, fv, args, func(res Value) { r.set(fr, x, res) })
}

func (r *Run) execTypeAssert(fr *Frame, x *ssa.TypeAssert) {
	v := r.get(fr, x.X).(IfaceV)
	ok := false
	var res Value
	if v.t != nil {
		if it, isI := x.AssertedType.Underlying().(*types.Interface); isI {
			ok = types.Implements(v.t, it)
			if !ok {
				// pointer receiver method sets
				ok = types.AssignableTo(v.t, x.AssertedType)
			}
			res = v
		} else {
			ok = types.Identical(v.t, x.AssertedType)
			res = v.v
		}
	}
	if x.CommaOk {
		if !ok {
			res = r.zeroShared(x.AssertedType)
		}
		r.set(fr, x, TupleV{res, r.ctx.Bool(ok)})
		return
	}
	if !ok {
		dyn := "nil"
		if v.t != nil {
			dyn = v.t.String()
		}
		panic(goPanic{kind: "assert", msg: fmt.Sprintf("interface conversion: interface is %s, not %s", dyn, x.AssertedType)})
	}
	r.set(fr, x, res)
}

// lateLoad resolves an evaluation order the Go specification leaves open the
// way the gc compiler does: in an operand list such as `return x, f(&x)` the
// plain variable x is read after all calls of the statement. go/ssa emits the
// load of x before the call; if operand v is such a load of a local variable
// in the same block as the using instruction, with no store to the variable
// in between but a call, the variable is read again at the use.
func (r *Run) lateLoad(fr *Frame, v ssa.Value, at ssa.Instruction) Value {
	switch w := v.(type) {
	case *ssa.ChangeType:
		if w.Block() == at.Block() {
			return r.lateLoad(fr, w.X, at)
		}
	case *ssa.MakeInterface:
		if w.Block() == at.Block() {
			return IfaceV{t: w.X.Type(), v: r.lateLoad(fr, w.X, at)}
		}
	}
	u, ok := v.(*ssa.UnOp)
	if !ok || u.Op != token.MUL || u.Block() != at.Block() {
		return r.get(fr, v)
	}
	al, ok := u.X.(*ssa.Alloc)
	if !ok {
		return r.get(fr, v)
	}
	seen, call := false, false
	for _, in := range u.Block().Instrs {
		if in == ssa.Instruction(u) {
			seen = true
			continue
		}
		if !seen {
			continue
		}
		if in == at {
			break
		}
		switch y := in.(type) {
		case *ssa.Store:
			if y.Addr == ssa.Value(al) {
				return r.get(fr, v)
			}
		case *ssa.Call:
			call = true
		}
	}
	if !call {
		return r.get(fr, v)
	}
	return r.load(r.get(fr, al).(PtrV))
}

// zeroShared returns a zero value that must only live in registers (values in
// registers are never mutated; stores copy).
func (r *Run) zeroShared(t types.Type) Value {
	if v, ok := r.zeroCache[t]; ok {
		return v
	}
	v := r.zero(t)
	r.zeroCache[t] = v
	return v
}

// concreteInt requires a concrete integer value.
func (r *Run) concreteInt(v Value, what string) int64 {
	t, ok := v.(*Term)
	if !ok {
		panic(engineErr("%s: not an integer (%T)", what, v))
	}
	if !t.IsConst() {
		return int64(signExtend(r.concretize(t, 64, what), t.Sort.W))
	}
	return signExtend(t.CV, t.Sort.W)
}

func (r *Run) intTerm(v int64) *Term { return r.ctx.BV(64, uint64(v)) }
