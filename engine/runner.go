package main

// Runner: `verif check <ID> --tier quick|thorough` discharges the obligations
// of one property, replays counterexamples natively, validates the translator
// and writes the evidence file.

import (
	"encoding/json"
	"fmt"
	"os"
	"path/filepath"
	"sort"
	"strconv"
	"strings"
	"time"

	"golang.org/x/tools/go/ssa"
)

const verifDir = "/verif"

type Obligation struct {
	Pkg     string // directory relative to /repo (overlay), e.g. internal/verifh/c15
	Harness string
	Quick   map[string]int // bound parameters (rt.Bound) in the quick tier
	Thor    map[string]int // bound parameters in the thorough tier
	Sched   bool           // explore scheduler choices
	TV      int            // translator-validation runs (native vs engine), quick tier
	OnlyT   bool           // thorough tier only
	Note    string
}

type CheckDef struct {
	ID          string
	Level       string
	Obligations []Obligation
	Assumptions []string
	Outside     []string
	BoundsText  string
}

type KnownFinding struct {
	ID       string `json:"id"`
	Property string `json:"property"`
	Status   string `json:"status"` // open | fixed
	What     string `json:"what"`
	Commit   string `json:"commit,omitempty"`
}

func loadKnown() ([]KnownFinding, error) {
	data, err := os.ReadFile(filepath.Join(verifDir, "KNOWN_FINDINGS.json"))
	if err != nil {
		if os.IsNotExist(err) {
			return nil, nil
		}
		return nil, err
	}
	var f struct {
		Findings []KnownFinding `json:"findings"`
	}
	if err := json.Unmarshal(data, &f); err != nil {
		return nil, err
	}
	return f.Findings, nil
}

type oblReport struct {
	Obligation   string            `json:"obligation"`
	Harness      string            `json:"harness"`
	Bounds       map[string]int    `json:"bounds"`
	Paths        int               `json:"paths"`
	Steps        int64             `json:"ssa_instructions"`
	Queries      int               `json:"solver_queries"`
	SolverS      float64           `json:"solver_s"`
	MaxQueryS    float64           `json:"max_query_s"`
	WallS        float64           `json:"wall_s"`
	Discharged   map[string]int    `json:"assertions_discharged_unsat"`
	Vacuity      map[string]string `json:"vacuity_witnesses"`
	Outcomes     map[string]int    `json:"path_outcomes"`
	Violations   []string          `json:"violations,omitempty"`
	Known        []string          `json:"known_findings,omitempty"`
	Inconclusive map[string]int    `json:"inconclusive,omitempty"`
	Sched        int               `json:"scheduler_choices,omitempty"`
	Timers       int               `json:"timers_fired,omitempty"`
	TVRuns       int               `json:"translator_validation_runs"`
	TVSkipped    int               `json:"translator_validation_assume_false,omitempty"`
	Verdict      string            `json:"verdict"`
}

func vecString(v []VecEntry) string {
	var sb strings.Builder
	for i, e := range v {
		if i > 0 {
			sb.WriteString(" ")
		}
		if i >= 24 {
			fmt.Fprintf(&sb, "…(+%d)", len(v)-i)
			break
		}
		sb.WriteString(e.K + ":" + e.V)
	}
	return sb.String()
}

// reachLabels finds the constant labels of rt.Reach calls in fn and the
// functions it (transitively, within the harness module) references.
func reachLabels(fn *ssa.Function) []string {
	seen := map[*ssa.Function]bool{}
	labels := map[string]bool{}
	var walk func(f *ssa.Function)
	walk = func(f *ssa.Function) {
		if f == nil || seen[f] || len(f.Blocks) == 0 {
			return
		}
		seen[f] = true
		for _, b := range f.Blocks {
			for _, in := range b.Instrs {
				if mc, ok := in.(*ssa.MakeClosure); ok {
					walk(mc.Fn.(*ssa.Function))
				}
				c, ok := in.(ssa.CallInstruction)
				if !ok {
					continue
				}
				callee := c.Common().StaticCallee()
				if callee == nil {
					continue
				}
				if callee.String() == rtPkg+".Reach" {
					if k, ok := c.Common().Args[0].(*ssa.Const); ok {
						labels[strings.Trim(k.Value.ExactString(), "\"")] = true
					}
					continue
				}
				if callee.Pkg != nil && strings.HasPrefix(callee.Pkg.Pkg.Path(), modPath+"/internal/verifh/") && callee.Pkg == fn.Pkg {
					walk(callee)
				}
			}
		}
	}
	walk(fn)
	var out []string
	for l := range labels {
		out = append(out, l)
	}
	sort.Strings(out)
	return out
}

func pkgHarnesses(p *ssa.Package) []string {
	var hs []string
	for name, m := range p.Members {
		if f, ok := m.(*ssa.Function); ok && strings.HasPrefix(name, "Verif") && f.Signature.Params().Len() == 0 && f.Signature.Results().Len() == 0 {
			hs = append(hs, name)
		}
	}
	sort.Strings(hs)
	return hs
}

func cmdCheck(args []string) int {
	id := args[0]
	tier := os.Getenv("VERIF_TIER")
	if tier == "" {
		tier = "quick"
	}
	for i := 1; i < len(args); i++ {
		if args[i] == "--tier" && i+1 < len(args) {
			tier = args[i+1]
			i++
		}
	}
	seed := int64(1)
	if s := os.Getenv("VERIF_SEED"); s != "" {
		if v, err := strconv.ParseInt(s, 10, 64); err == nil {
			seed = v
		}
	}
	def, ok := checkDefs()[id]
	if !ok {
		fmt.Fprintf(os.Stderr, "no check for %s\n", id)
		return 2
	}
	start := time.Now()
	known, err := loadKnown()
	if err != nil {
		fmt.Fprintln(os.Stderr, "KNOWN_FINDINGS.json:", err)
		return 2
	}
	kfWhat := map[string]string{}
	openKF := map[string]bool{}
	for _, k := range known {
		if k.Status == "open" && k.Property == id {
			openKF[k.ID] = true
			kfWhat[k.ID] = k.What
		}
	}
	pkgSet := map[string]bool{}
	for _, o := range def.Obligations {
		pkgSet["./"+o.Pkg] = true
	}
	var pats []string
	for p := range pkgSet {
		pats = append(pats, p)
	}
	sort.Strings(pats)
	eng, err := NewEngine(pats)
	if err != nil {
		fmt.Fprintln(os.Stderr, "load:", err)
		return 2
	}
	eng.openKF = openKF
	if tier == "thorough" {
		eng.maxPaths = 20_000_000
	}
	if w := os.Getenv("VERIF_MAXPATHS"); w != "" {
		fmt.Sscan(w, &eng.maxPaths)
	}
	if w := os.Getenv("VERIF_WORKERS"); w != "" {
		fmt.Sscan(w, &eng.workers)
	}
	native, err := NewNativeRunner()
	if err != nil {
		fmt.Fprintln(os.Stderr, err)
		return 2
	}
	defer native.Close()

	replayDir := filepath.Join(outDir, "replays", id)
	os.RemoveAll(replayDir)
	os.MkdirAll(replayDir, 0o755)

	var reports []oblReport
	funcs := map[string]bool{}
	intr := map[string]bool{}
	totalPaths, totalQueries, totalTV := 0, 0, 0
	var solverTime time.Duration
	var maxQuery time.Duration
	nViol, nEngineErr := 0, 0
	var violLines, knownLines, engineErrs []string
	knownSeen := map[string]bool{}

	for _, o := range def.Obligations {
		if o.OnlyT && tier != "thorough" {
			continue
		}
		bounds := o.Quick
		if tier == "thorough" && o.Thor != nil {
			bounds = map[string]int{}
			for k, v := range o.Quick {
				bounds[k] = v
			}
			for k, v := range o.Thor {
				bounds[k] = v
			}
		}
		if bounds == nil {
			bounds = map[string]int{}
		}
		eng.bounds = bounds
		sp := eng.pkgs[modPath+"/"+o.Pkg]
		if sp == nil {
			engineErrs = append(engineErrs, "package not loaded: "+o.Pkg)
			nEngineErr++
			continue
		}
		fn := sp.Func(o.Harness)
		if fn == nil {
			engineErrs = append(engineErrs, "harness not found: "+o.Harness)
			nEngineErr++
			continue
		}
		hr := eng.Explore(fn, ExploreOpts{MaxViolationsPerLabel: 1, SchedChoice: o.Sched})
		rep := oblReport{
			Obligation: o.Harness, Harness: o.Pkg + "." + o.Harness, Bounds: bounds, Paths: hr.Paths, Steps: hr.Steps,
			Queries: hr.Solver.Queries, SolverS: hr.Solver.Time.Seconds(), MaxQueryS: hr.Solver.MaxQuery.Seconds(),
			WallS: hr.Wall.Seconds(), Discharged: hr.AssertsOK, Vacuity: map[string]string{}, Outcomes: hr.Outcomes,
			Sched: hr.SchedChoices, Timers: hr.TimersFired, Verdict: "holds within bounds",
		}
		totalPaths += hr.Paths
		totalQueries += hr.Solver.Queries
		solverTime += hr.Solver.Time
		if hr.Solver.MaxQuery > maxQuery {
			maxQuery = hr.Solver.MaxQuery
		}
		for f := range hr.Funcs {
			funcs[f] = true
		}
		for f := range hr.Intrinsics {
			intr[f] = true
		}
		if len(hr.Inconclusive) > 0 {
			rep.Inconclusive = hr.Inconclusive
			rep.Verdict = "inconclusive"
			for why, n := range hr.Inconclusive {
				engineErrs = append(engineErrs, fmt.Sprintf("%s: %d inconclusive path(s): %s", o.Harness, n, firstLine(why)))
			}
			nEngineErr++
		}
		// vacuity: every Reach label must have a witness
		for _, l := range reachLabels(fn) {
			w, ok := hr.Reached[l]
			if !ok {
				rep.Vacuity[l] = "NOT REACHED"
				rep.Verdict = "vacuous"
				engineErrs = append(engineErrs, fmt.Sprintf("%s: reach label %s has no witness (vacuous harness)", o.Harness, l))
				nEngineErr++
				continue
			}
			rep.Vacuity[l] = vecString(w)
		}
		harnesses := pkgHarnesses(sp)
		pkgName := sp.Pkg.Name()
		replayOne := func(v Violation, n int) (string, bool, string) {
			file := filepath.Join(replayDir, fmt.Sprintf("%s-%d.json", sanitize(v.Label), n))
			data, _ := json.MarshalIndent(map[string]interface{}{
				"property": id, "package": o.Pkg, "harness": o.Harness, "label": v.Label, "kind": v.Kind,
				"detail": v.Detail, "vector": v.Vector, "bounds": bounds, "stack": v.Stack, "known": v.Known, "sched": v.Sched,
			}, "", " ")
			os.WriteFile(file, data, 0o644)
			tries := 1
			if o.Sched {
				tries = 8 // goroutine schedules are not under the replay's control
			}
			var rec *NativeRec
			for t := 0; t < tries; t++ {
				var out string
				var err error
				if v.Kind == "race" {
					// a data race is confirmed by the race detector of the native build
					rec, out, err = native.ReplayRace(o.Pkg, pkgName, harnesses, o.Harness, file, true)
					if strings.Contains(out, "WARNING: DATA RACE") {
						return file, true, ""
					}
					if err != nil && rec == nil {
						return file, false, fmt.Sprintf("native race replay failed to run: %v\n%s", err, tail(out, 30))
					}
					continue
				}
				rec, out, err = native.Replay(o.Pkg, pkgName, harnesses, o.Harness, file)
				if err != nil {
					return file, false, fmt.Sprintf("native replay failed to run: %v\n%s", err, tail(out, 30))
				}
				for _, f := range rec.Failed {
					if f == v.Label {
						return file, true, ""
					}
				}
			}
			return file, false, fmt.Sprintf("native run did not fail %s (failed=%v assume=%v panic=%q)", v.Label, rec.Failed, rec.Assume, rec.Panic)
		}
		for i, v := range hr.Violations {
			file, okr, why := replayOne(v, i)
			if okr {
				nViol++
				rep.Violations = append(rep.Violations, v.Label+" "+vecString(v.Vector))
				rep.Verdict = "VIOLATED"
				violLines = append(violLines, fmt.Sprintf("VIOLATION property=%s replay=%s", id, file))
				fmt.Fprintf(os.Stderr, "violation %s in %s: %s\n%s\n", v.Label, o.Harness, firstLine(v.Detail), v.Stack)
			} else {
				nEngineErr++
				engineErrs = append(engineErrs, fmt.Sprintf("%s: counterexample for %s did not reproduce natively: %s (replay file %s)", o.Harness, v.Label, why, file))
			}
		}
		kids := make([]string, 0, len(hr.KnownHits))
		for k := range hr.KnownHits {
			kids = append(kids, k)
		}
		sort.Strings(kids)
		for i, k := range kids {
			v := hr.KnownHits[k]
			_, okr, why := replayOne(v, 1000+i)
			if !okr {
				nEngineErr++
				engineErrs = append(engineErrs, fmt.Sprintf("%s: known finding %s did not reproduce natively: %s", o.Harness, k, why))
				continue
			}
			rep.Known = append(rep.Known, k+" "+v.Label)
			if !knownSeen[k] {
				knownSeen[k] = true
				knownLines = append(knownLines, fmt.Sprintf("KNOWN-FINDING: property=%s %s: %s", id, k, kfWhat[k]))
			}
		}
		// translator validation
		if o.TV > 0 && os.Getenv("VERIF_NO_TV") == "" {
			n, skipped, terr := translatorValidation(eng, native, fn, o, pkgName, harnesses, bounds, seed)
			rep.TVRuns = n
			rep.TVSkipped = skipped
			totalTV += n
			if terr != "" {
				nEngineErr++
				engineErrs = append(engineErrs, o.Harness+": translator validation: "+terr)
			}
		}
		reports = append(reports, rep)
	}

	// ---- evidence
	var samples []interface{}
	for _, r := range reports {
		samples = append(samples, r)
	}
	var kfl []string
	for k := range knownSeen {
		kfl = append(kfl, k)
	}
	sort.Strings(kfl)
	ev := map[string]interface{}{
		"property_id": id,
		"tier":        tier,
		"seed":        seed,
		"level":       "model_checking",
		"coverage": map[string]interface{}{
			"states":                        totalPaths,
			"transitions":                   totalQueries,
			"traces_validated_against_impl": totalTV,
			"samples":                       samples,
			"exhaustive":                    false,
			"explanation":                   "states = symbolic paths explored (each path covers all values of its symbolic leaves); transitions = SMT queries discharged; traces_validated_against_impl = random concrete vectors executed both natively and by the interpreter with identical assertion outcomes and observations",
			"functions_encoded":             sortedKeys(funcs),
			"intrinsics_used":               sortedKeys(intr),
			"bounds":                        def.BoundsText,
			"outside_bounds":                def.Outside,
			"solver":                        map[string]interface{}{"binary": "z3 4.8.12 (fallback on unknown: z3-new 5.1.0, cvc5 1.0)", "total_s": solverTime.Seconds(), "max_query_s": maxQuery.Seconds(), "per_query_timeout_s": solverTimeout.Seconds()},
			"inconclusive_paths":            nEngineErr,
			"known_findings":                kfl,
			"engine_errors":                 engineErrs,
			"load_s":                        eng.loadTime.Seconds(),
		},
		"assumptions": def.Assumptions,
		"wall_s":      time.Since(start).Seconds(),
		"violations":  nViol,
	}
	os.MkdirAll(filepath.Join(outDir, "evidence"), 0o755)
	data, _ := json.MarshalIndent(ev, "", " ")
	if totalPaths > 0 && totalQueries > 0 {
		os.WriteFile(filepath.Join(outDir, "evidence", id+".json"), data, 0o644)
	}

	for _, l := range knownLines {
		fmt.Println(l)
	}
	for _, r := range reports {
		fmt.Printf("%-28s %-20s paths=%d queries=%d wall=%.1fs tv=%d\n", r.Obligation, r.Verdict, r.Paths, r.Queries, r.WallS, r.TVRuns)
	}
	if nViol > 0 {
		for _, l := range violLines {
			fmt.Println(l)
		}
		return 1
	}
	if nEngineErr > 0 {
		for _, e := range engineErrs {
			fmt.Fprintln(os.Stderr, "ENGINE-ERROR:", e)
		}
		return 2
	}
	fmt.Printf("OK property=%s tier=%s obligations=%d paths=%d queries=%d wall=%.1fs\n", id, tier, len(reports), totalPaths, totalQueries, time.Since(start).Seconds())
	return 0
}

func firstLine(s string) string {
	if i := strings.Index(s, "\n"); i >= 0 {
		return s[:i]
	}
	return s
}

func tail(s string, n int) string {
	ls := strings.Split(s, "\n")
	if len(ls) > n {
		ls = ls[len(ls)-n:]
	}
	return strings.Join(ls, "\n")
}

func sanitize(s string) string {
	return strings.Map(func(r rune) rune {
		if r >= 'a' && r <= 'z' || r >= 'A' && r <= 'Z' || r >= '0' && r <= '9' || r == '.' || r == '-' || r == '_' {
			return r
		}
		return '_'
	}, s)
}

// translatorValidation runs the harness natively on random vectors and
// re-executes every vector in the interpreter (concrete mode); assertion
// outcomes, reach labels and observations must agree.
func translatorValidation(eng *Engine, native *NativeRunner, fn *ssa.Function, o Obligation, pkgName string, harnesses []string, bounds map[string]int, seed int64) (int, int, string) {
	bf := filepath.Join(native.scratch, "bounds_"+o.Harness+".json")
	data, _ := json.Marshal(map[string]interface{}{"bounds": bounds, "vector": []VecEntry{}})
	os.WriteFile(bf, data, 0o644)
	recs, out, err := native.RandomRuns(o.Pkg, pkgName, harnesses, o.Harness, seed, o.TV*12, bf)
	if err != nil {
		return 0, 0, fmt.Sprintf("%v\n%s", err, tail(out, 30))
	}
	n, skipped := 0, 0
	for _, rec := range recs {
		if rec.Assume {
			skipped++
			continue
		}
		if n >= o.TV {
			break
		}
		vec := rec.Vector
		if vec == nil {
			vec = []VecEntry{}
		}
		hr := eng.Explore(fn, ExploreOpts{Vector: vec, MaxViolationsPerLabel: 100})
		if len(hr.Inconclusive) > 0 {
			for why := range hr.Inconclusive {
				return n, skipped, fmt.Sprintf("interpreter inconclusive on vector %s: %s", vecString(vec), firstLine(why))
			}
		}
		var efailed []string
		for _, v := range hr.Violations {
			efailed = append(efailed, v.Label)
		}
		for _, v := range hr.KnownHits {
			efailed = append(efailed, v.Label)
		}
		nf := append([]string(nil), rec.Failed...)
		// assertions about allocation sizes can only be observed by the engine
		// (natively they are confirmed in replay mode through an allocation proxy)
		efailed, nf = dropEngineOnly(efailed), dropEngineOnly(nf)
		sort.Strings(efailed)
		sort.Strings(nf)
		efailed, nf = uniq(efailed), uniq(nf)
		if strings.Join(efailed, ",") != strings.Join(nf, ",") {
			return n, skipped, fmt.Sprintf("assertion outcomes differ on vector %s: native failed %v (panic %q), interpreter failed %v", vecString(vec), nf, rec.Panic, efailed)
		}
		var eobs []string
		for _, ob := range hr.Observes {
			eobs = append(eobs, ob.Label+"="+strings.Join(ob.Vals, " "))
		}
		if strings.Join(eobs, "|") != strings.Join(rec.Observed, "|") {
			return n, skipped, fmt.Sprintf("observations differ on vector %s:\n native %v\n interp %v", vecString(vec), rec.Observed, eobs)
		}
		n++
	}
	if n == 0 {
		return 0, skipped, "no usable random vector (all violated an assumption)"
	}
	return n, skipped, ""
}

func dropEngineOnly(s []string) []string {
	var out []string
	for _, x := range s {
		if !strings.Contains(x, ".alloc-bounded") {
			out = append(out, x)
		}
	}
	return out
}

func uniq(s []string) []string {
	var out []string
	for i, x := range s {
		if i == 0 || x != s[i-1] {
			out = append(out, x)
		}
	}
	return out
}

// cmdReplay re-runs a stored counterexample natively.
func cmdReplay(args []string) int {
	file := args[0]
	data, err := os.ReadFile(file)
	if err != nil {
		fmt.Fprintln(os.Stderr, err)
		return 2
	}
	var rf struct {
		Property, Package, Harness, Label string
	}
	if err := json.Unmarshal(data, &rf); err != nil {
		fmt.Fprintln(os.Stderr, err)
		return 2
	}
	eng, err := NewEngine([]string{"./" + rf.Package})
	if err != nil {
		fmt.Fprintln(os.Stderr, err)
		return 2
	}
	sp := eng.pkgs[modPath+"/"+rf.Package]
	native, err := NewNativeRunner()
	if err != nil {
		fmt.Fprintln(os.Stderr, err)
		return 2
	}
	defer native.Close()
	abs, _ := filepath.Abs(file)
	rec, out, err := native.Replay(rf.Package, sp.Pkg.Name(), pkgHarnesses(sp), rf.Harness, abs)
	if err != nil {
		fmt.Fprintln(os.Stderr, err, "\n", tail(out, 40))
		return 2
	}
	fmt.Printf("native run of %s on %s: failed=%v panic=%q\n", rf.Harness, file, rec.Failed, rec.Panic)
	for _, f := range rec.Failed {
		if f == rf.Label {
			fmt.Printf("VIOLATION property=%s replay=%s\n", rf.Property, file)
			return 1
		}
	}
	fmt.Println("not reproduced")
	return 0
}
