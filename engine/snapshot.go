package main

// Heap snapshot of the state after package initialisation: initialisers are
// concrete and deterministic, so they are executed once per exploration and
// the resulting heap is cloned (preserving aliasing) for every path.

import (
	"golang.org/x/tools/go/ssa"
)

type Snapshot struct {
	globals map[*ssa.Global]*Object
	p256    PtrV
	nextObj int
	nextMap int
	keyCnt  int
	randCnt int
	nSigs   int
	nHashes int
}

type cloner struct {
	r     *Run
	objs  map[*Object]*Object
	maps  map[*MapV]*MapV
	chans map[*ChanV]*ChanV
}

func (c *cloner) term(t *Term) *Term {
	if !t.IsConst() {
		panic(engineErr("snapshot: symbolic term in initialised heap"))
	}
	switch t.Sort.K {
	case SBool:
		return c.r.ctx.Bool(t.CB)
	case SInt:
		return c.r.ctx.Int(t.CI)
	}
	if t.Sort.W <= 64 {
		return c.r.ctx.BV(t.Sort.W, t.CV)
	}
	return c.r.ctx.BVBig(t.Sort.W, t.CI)
}

func (c *cloner) obj(o *Object) *Object {
	if o == nil {
		return nil
	}
	if n, ok := c.objs[o]; ok {
		return n
	}
	n := &Object{id: o.id, typ: o.typ, name: o.name}
	c.objs[o] = n
	n.val = c.val(o.val)
	return n
}

func (c *cloner) val(v Value) Value {
	switch x := v.(type) {
	case nil:
		return nil
	case *Term:
		return c.term(x)
	case FloatV, OpaqueV:
		return v
	case *StrV:
		if x.sym != nil {
			panic(engineErr("snapshot: symbolic string in initialised heap"))
		}
		return x
	case PtrV:
		return PtrV{obj: c.obj(x.obj), path: x.path}
	case *StructV:
		n := &StructV{f: make([]Value, len(x.f))}
		for i, f := range x.f {
			n.f[i] = c.val(f)
		}
		return n
	case *ArrayV:
		n := &ArrayV{e: make([]Value, len(x.e))}
		for i, f := range x.e {
			n.e[i] = c.val(f)
		}
		return n
	case SliceV:
		return SliceV{base: PtrV{obj: c.obj(x.base.obj), path: x.base.path}, off: x.off, len: x.len, cap: x.cap}
	case *MapV:
		if x == nil {
			return x
		}
		if n, ok := c.maps[x]; ok {
			return n
		}
		n := &MapV{id: x.id, typ: x.typ, keys: make([]Value, len(x.keys)), vals: make([]Value, len(x.vals))}
		c.maps[x] = n
		for i := range x.keys {
			n.keys[i] = c.val(x.keys[i])
			n.vals[i] = c.val(x.vals[i])
		}
		return n
	case *ChanV:
		if x == nil {
			return x
		}
		if n, ok := c.chans[x]; ok {
			return n
		}
		n := &ChanV{id: x.id, cap: x.cap, closed: x.closed}
		c.chans[x] = n
		for _, b := range x.buf {
			n.buf = append(n.buf, c.val(b))
		}
		return n
	case IfaceV:
		return IfaceV{t: x.t, v: c.val(x.v)}
	case *FuncV:
		if x == nil {
			return x
		}
		n := &FuncV{fn: x.fn, intr: x.intr}
		if x.env != nil {
			n.env = make([]Value, len(x.env))
			for i, e := range x.env {
				n.env[i] = c.val(e)
			}
		}
		return n
	case TupleV:
		n := make(TupleV, len(x))
		for i, f := range x {
			n[i] = c.val(f)
		}
		return n
	case *BigV:
		return &BigV{c.term(x.t)}
	case *TimeV:
		return &TimeV{c.term(x.ns)}
	}
	panic(engineErr("snapshot: cannot clone %T", v))
}

// takeSnapshot records the run's heap after initialisation.
func (r *Run) takeSnapshot() *Snapshot {
	if len(r.hashers) > 0 || len(r.timers) > 0 || len(r.gors) > 1 {
		return nil
	}
	for _, g := range r.gors[1:] {
		if !g.finished {
			return nil
		}
	}
	return &Snapshot{globals: r.globals, p256: r.p256, nextObj: r.nextObj, nextMap: r.nextMap,
		keyCnt: r.keyCnt, randCnt: r.randCnt, nSigs: len(r.sigs), nHashes: len(r.hashes)}
}

// restore clones the snapshot into the run.
func (r *Run) restore(s *Snapshot) {
	c := &cloner{r: r, objs: map[*Object]*Object{}, maps: map[*MapV]*MapV{}, chans: map[*ChanV]*ChanV{}}
	r.globals = make(map[*ssa.Global]*Object, len(s.globals))
	for g, o := range s.globals {
		r.globals[g] = c.obj(o)
	}
	if s.p256.obj != nil {
		r.p256 = PtrV{obj: c.obj(s.p256.obj), path: s.p256.path}
	}
	r.nextObj, r.nextMap, r.keyCnt, r.randCnt = s.nextObj, s.nextMap, s.keyCnt, s.randCnt
}
