package main

import (
	"encoding/json"
	"fmt"
	"os"
	"runtime/debug"
	"runtime/pprof"
	"sort"
	"strings"

	"golang.org/x/tools/go/ssa"
)

func main() {
	debug.SetGCPercent(200)
	if len(os.Args) < 2 {
		fmt.Fprintln(os.Stderr, "usage: verif run <pkg> <Harness> | check <ID> [--tier quick|thorough] | replay <file>")
		os.Exit(2)
	}
	switch os.Args[1] {
	case "run":
		cmdRun(os.Args[2:])
	case "check":
		os.Exit(cmdCheck(os.Args[2:]))
	case "replay":
		os.Exit(cmdReplay(os.Args[2:]))
	default:
		fmt.Fprintln(os.Stderr, "unknown command")
		os.Exit(2)
	}
}

// cmdRun: developer entry: explore one harness and dump the result.
func cmdRun(args []string) {
	pkg, name := args[0], args[1]
	e, err := NewEngine([]string{pkg})
	if err != nil {
		fmt.Fprintln(os.Stderr, err)
		os.Exit(2)
	}
	var sp = e.findPkg(pkg)
	if sp == nil {
		fmt.Fprintln(os.Stderr, "package not found")
		os.Exit(2)
	}
	fn := sp.Func(name)
	if fn == nil {
		fmt.Fprintln(os.Stderr, "harness not found")
		os.Exit(2)
	}
	if w := os.Getenv("VERIF_WORKERS"); w != "" {
		fmt.Sscan(w, &e.workers)
	}
	if w := os.Getenv("VERIF_MAXPATHS"); w != "" {
		fmt.Sscan(w, &e.maxPaths)
	}
	for _, k := range strings.Split(os.Getenv("VERIF_OPEN"), ",") {
		if k != "" {
			e.openKF[k] = true
		}
	}
	e.bounds = map[string]int{}
	for _, kv := range strings.Split(os.Getenv("VERIF_BOUNDS"), ",") {
		var k string
		var v int
		if i := strings.Index(kv, "="); i > 0 {
			k = kv[:i]
			fmt.Sscan(kv[i+1:], &v)
			e.bounds[k] = v
		}
	}
	if p := os.Getenv("VERIF_PROF"); p != "" {
		f, _ := os.Create(p)
		pprof.StartCPUProfile(f)
		defer pprof.StopCPUProfile()
	}
	mv := 1
	if w := os.Getenv("VERIF_MAXVIOL"); w != "" {
		fmt.Sscan(w, &mv)
	}
	opts := ExploreOpts{MaxViolationsPerLabel: mv, SchedChoice: os.Getenv("VERIF_SCHED") != ""}
	if vf := os.Getenv("VERIF_VECTOR"); vf != "" {
		data, err := os.ReadFile(vf)
		if err != nil {
			panic(err)
		}
		var f struct {
			Vector []VecEntry     `json:"vector"`
			Bounds map[string]int `json:"bounds"`
		}
		json.Unmarshal(data, &f)
		opts.Vector = f.Vector
		if opts.Vector == nil {
			opts.Vector = []VecEntry{}
		}
		for k, v := range f.Bounds {
			e.bounds[k] = v
		}
	}
	hr := e.Explore(fn, opts)
	if debugDecisions {
		type kv struct {
			k string
			v int
		}
		var l []kv
		for k, v := range forkSites {
			l = append(l, kv{k, v})
		}
		sort.Slice(l, func(i, j int) bool { return l[i].v > l[j].v })
		for i, x := range l {
			if i < 25 {
				fmt.Fprintf(os.Stderr, "FORKS %6d %s\n", x.v, x.k)
			}
		}
	}
	for _, o := range hr.Observes {
		fmt.Fprintf(os.Stderr, "OBSERVE %s = %s\n", o.Label, strings.Join(o.Vals, " "))
	}
	if os.Getenv("VERIF_DUMPVIOL") != "" {
		for i, v := range hr.Violations {
			data, _ := json.Marshal(map[string]interface{}{"vector": v.Vector, "bounds": e.bounds, "label": v.Label, "sched": v.Sched})
			os.WriteFile(fmt.Sprintf("%s.%d.json", os.Getenv("VERIF_DUMPVIOL"), i), data, 0o644)
		}
	}
	out := map[string]interface{}{
		"paths": hr.Paths, "steps": hr.Steps, "outcomes": hr.Outcomes, "inconclusive": hr.Inconclusive,
		"asserts_ok": hr.AssertsOK, "reached": keysOf(hr.Reached), "solver_queries": hr.Solver.Queries,
		"solver_s": hr.Solver.Time.Seconds(), "wall_s": hr.Wall.Seconds(), "load_s": e.loadTime.Seconds(),
		"violations": hr.Violations, "known": hr.KnownHits, "funcs": len(hr.Funcs), "samples": hr.Samples, "sched_choices": hr.SchedChoices, "timers": hr.TimersFired,
	}
	b, _ := json.MarshalIndent(out, "", " ")
	fmt.Println(string(b))
}

func keysOf(m map[string][]VecEntry) []string {
	var ks []string
	for k := range m {
		ks = append(ks, k)
	}
	return ks
}

func (e *Engine) findPkg(pat string) *ssa.Package {
	pat = strings.TrimPrefix(pat, "./")
	for path, p := range e.pkgs {
		if path == modPath+"/"+pat || path == pat {
			return p
		}
	}
	return nil
}
