package main

// Term DAG: hash-consed SMT terms over Bool, BitVec(w) and Int with a local
// simplifier. Concrete operations are always folded, so a fully concrete
// execution never creates a non-constant term.

import (
	"fmt"
	"math/big"
	"strconv"
	"strings"
)

type SortKind uint8

const (
	SBool SortKind = iota
	SBV
	SInt
)

type Sort struct {
	K SortKind
	W int
}

func (s Sort) String() string {
	switch s.K {
	case SBool:
		return "Bool"
	case SInt:
		return "Int"
	}
	return fmt.Sprintf("(_ BitVec %d)", s.W)
}

var (
	sortBool = Sort{SBool, 0}
	sortInt  = Sort{SInt, 0}
)

func bvSort(w int) Sort { return Sort{SBV, w} }

type Op uint8

const (
	OpConst Op = iota
	OpVar
	OpNot
	OpAnd
	OpOr
	OpEq
	OpIte
	// bit-vectors
	OpBVAdd
	OpBVSub
	OpBVMul
	OpBVUDiv
	OpBVURem
	OpBVSDiv
	OpBVSRem
	OpBVAnd
	OpBVOr
	OpBVXor
	OpBVNot
	OpBVNeg
	OpBVShl
	OpBVLshr
	OpBVAshr
	OpBVUlt
	OpBVUle
	OpBVSlt
	OpBVSle
	OpConcat
	OpExtract // A=hi B=lo
	OpZeroExt // A=extra bits
	OpSignExt
	// integers
	OpIAdd
	OpISub
	OpIMul
	OpINeg
	OpILe
	OpILt
	OpIDiv
	OpIMod
	OpBV2Nat
	OpInt2BV // A=width
)

var opNames = map[Op]string{
	OpNot: "not", OpAnd: "and", OpOr: "or", OpEq: "=", OpIte: "ite",
	OpBVAdd: "bvadd", OpBVSub: "bvsub", OpBVMul: "bvmul", OpBVUDiv: "bvudiv", OpBVURem: "bvurem",
	OpBVSDiv: "bvsdiv", OpBVSRem: "bvsrem", OpBVAnd: "bvand", OpBVOr: "bvor", OpBVXor: "bvxor",
	OpBVNot: "bvnot", OpBVNeg: "bvneg", OpBVShl: "bvshl", OpBVLshr: "bvlshr", OpBVAshr: "bvashr",
	OpBVUlt: "bvult", OpBVUle: "bvule", OpBVSlt: "bvslt", OpBVSle: "bvsle", OpConcat: "concat",
	OpIAdd: "+", OpISub: "-", OpIMul: "*", OpINeg: "-", OpILe: "<=", OpILt: "<", OpIDiv: "div", OpIMod: "mod",
	OpBV2Nat: "bv2nat",
}

type Term struct {
	Op   Op
	Sort Sort
	Args []*Term
	A, B int
	// constants
	CB bool     // Bool
	CV uint64   // BV (w<=64)
	CI *big.Int // Int, or BV with w>64
	// variables
	Name string
	id   int
}

func (t *Term) IsConst() bool { return t.Op == OpConst }

// Ctx owns the hash-cons table; one per path execution.
type Ctx struct {
	tab    map[termKey]*Term
	nextID int
	tT, tF *Term
	vars   []*Term
	bvTab  map[bvKey]*Term
}

func NewCtx() *Ctx {
	c := &Ctx{tab: map[termKey]*Term{}, bvTab: map[bvKey]*Term{}}
	c.Reset()
	return c
}

// Reset empties the context for the next path (keeps the tables' capacity).
func (c *Ctx) Reset() {
	if len(c.tab) > 8192 || len(c.bvTab) > 8192 {
		// clearing a map that once grew large costs its full capacity every time
		c.tab, c.bvTab = map[termKey]*Term{}, map[bvKey]*Term{}
	} else {
		clear(c.tab)
		clear(c.bvTab)
	}
	c.nextID = 0
	c.vars = nil
	c.tT = c.intern(&Term{Op: OpConst, Sort: sortBool, CB: true})
	c.tF = c.intern(&Term{Op: OpConst, Sort: sortBool, CB: false})
}

type termKey struct {
	op         Op
	k          SortKind
	w, a, b    int32
	cv         uint64
	s          string
	n          int32
	a0, a1, a2 int32
}

func (c *Ctx) intern(t *Term) *Term {
	k := termKey{op: t.Op, k: t.Sort.K, w: int32(t.Sort.W), a: int32(t.A), b: int32(t.B), n: int32(len(t.Args))}
	switch t.Op {
	case OpConst:
		switch t.Sort.K {
		case SBool:
			if t.CB {
				k.cv = 1
			}
		case SBV:
			if t.Sort.W <= 64 {
				k.cv = t.CV
			} else {
				k.s = t.CI.Text(16)
			}
		case SInt:
			if t.CI.IsInt64() {
				k.cv = uint64(t.CI.Int64())
				k.n = -1
			} else {
				k.s = t.CI.Text(16)
			}
		}
	case OpVar:
		k.s = t.Name
	default:
		switch len(t.Args) {
		case 0:
		case 1:
			k.a0 = int32(t.Args[0].id)
		case 2:
			k.a0, k.a1 = int32(t.Args[0].id), int32(t.Args[1].id)
		case 3:
			k.a0, k.a1, k.a2 = int32(t.Args[0].id), int32(t.Args[1].id), int32(t.Args[2].id)
		default:
			buf := make([]byte, 0, 4*len(t.Args))
			for _, a := range t.Args {
				buf = strconv.AppendInt(buf, int64(a.id), 36)
				buf = append(buf, ',')
			}
			k.s = string(buf)
		}
	}
	if e, ok := c.tab[k]; ok {
		return e
	}
	t.id = c.nextID
	c.nextID++
	c.tab[k] = t
	return t
}

func (c *Ctx) Bool(b bool) *Term {
	if b {
		return c.tT
	}
	return c.tF
}

func maskW(w int) uint64 {
	if w >= 64 {
		return ^uint64(0)
	}
	return (uint64(1) << uint(w)) - 1
}

type bvKey struct {
	w int
	v uint64
}

func (c *Ctx) BV(w int, v uint64) *Term {
	if w > 64 {
		return c.BVBig(w, new(big.Int).SetUint64(v))
	}
	v &= maskW(w)
	k := bvKey{w, v}
	if t, ok := c.bvTab[k]; ok {
		return t
	}
	t := &Term{Op: OpConst, Sort: bvSort(w), CV: v, id: c.nextID}
	c.nextID++
	c.bvTab[k] = t
	return t
}

func (c *Ctx) BVBig(w int, v *big.Int) *Term {
	m := new(big.Int).Lsh(big.NewInt(1), uint(w))
	x := new(big.Int).Mod(v, m)
	if w <= 64 {
		return c.BV(w, x.Uint64())
	}
	return c.intern(&Term{Op: OpConst, Sort: bvSort(w), CI: x})
}

func (c *Ctx) Int(v *big.Int) *Term {
	return c.intern(&Term{Op: OpConst, Sort: sortInt, CI: new(big.Int).Set(v)})
}
func (c *Ctx) IntI(v int64) *Term { return c.Int(big.NewInt(v)) }

func (c *Ctx) Var(name string, s Sort) *Term {
	n := c.nextID
	t := c.intern(&Term{Op: OpVar, Sort: s, Name: name})
	if t.id == n { // newly created
		c.vars = append(c.vars, t)
	}
	return t
}

func (c *Ctx) mk(op Op, s Sort, a, b int, args ...*Term) *Term {
	return c.intern(&Term{Op: op, Sort: s, A: a, B: b, Args: args})
}

// constant accessors
func (t *Term) bvBig() *big.Int {
	if t.Sort.W <= 64 {
		return new(big.Int).SetUint64(t.CV)
	}
	return t.CI
}

func signExtend(v uint64, w int) int64 {
	if w >= 64 {
		return int64(v)
	}
	if v&(1<<uint(w-1)) != 0 {
		return int64(v | ^maskW(w))
	}
	return int64(v)
}

// ---------------------------------------------------------------- booleans

func (c *Ctx) Not(a *Term) *Term {
	if a.IsConst() {
		return c.Bool(!a.CB)
	}
	if a.Op == OpNot {
		return a.Args[0]
	}
	return c.mk(OpNot, sortBool, 0, 0, a)
}

func (c *Ctx) And(xs ...*Term) *Term {
	var out []*Term
	seen := map[int]bool{}
	for _, x := range xs {
		if x.IsConst() {
			if !x.CB {
				return c.tF
			}
			continue
		}
		if x.Op == OpAnd {
			for _, y := range x.Args {
				if !seen[y.id] {
					seen[y.id] = true
					out = append(out, y)
				}
			}
			continue
		}
		if !seen[x.id] {
			seen[x.id] = true
			out = append(out, x)
		}
	}
	for _, x := range out {
		if x.Op == OpNot && seen[x.Args[0].id] {
			return c.tF
		}
	}
	if len(out) == 0 {
		return c.tT
	}
	if len(out) == 1 {
		return out[0]
	}
	return c.mk(OpAnd, sortBool, 0, 0, out...)
}

func (c *Ctx) Or(xs ...*Term) *Term {
	var out []*Term
	seen := map[int]bool{}
	for _, x := range xs {
		if x.IsConst() {
			if x.CB {
				return c.tT
			}
			continue
		}
		if x.Op == OpOr {
			for _, y := range x.Args {
				if !seen[y.id] {
					seen[y.id] = true
					out = append(out, y)
				}
			}
			continue
		}
		if !seen[x.id] {
			seen[x.id] = true
			out = append(out, x)
		}
	}
	for _, x := range out {
		if x.Op == OpNot && seen[x.Args[0].id] {
			return c.tT
		}
	}
	if len(out) == 0 {
		return c.tF
	}
	if len(out) == 1 {
		return out[0]
	}
	return c.mk(OpOr, sortBool, 0, 0, out...)
}

func (c *Ctx) Implies(a, b *Term) *Term { return c.Or(c.Not(a), b) }

func (c *Ctx) Eq(a, b *Term) *Term {
	if a.Sort != b.Sort {
		panic(fmt.Sprintf("Eq: sort mismatch %v vs %v", a.Sort, b.Sort))
	}
	if a == b {
		return c.tT
	}
	if a.IsConst() && b.IsConst() {
		return c.tF // distinct interned constants
	}
	if a.Sort.K == SBool {
		if a.IsConst() {
			if a.CB {
				return b
			}
			return c.Not(b)
		}
		if b.IsConst() {
			if b.CB {
				return a
			}
			return c.Not(a)
		}
	}
	if a.id > b.id {
		a, b = b, a
	}
	// concat vs concat of same split, or const vs concat: compare piecewise
	if a.Sort.K == SBV {
		if r := c.eqConcat(a, b); r != nil {
			return r
		}
	}
	return c.mk(OpEq, sortBool, 0, 0, a, b)
}

func (c *Ctx) eqConcat(a, b *Term) *Term {
	if a.Op == OpConcat && b.Op == OpConcat && len(a.Args) == len(b.Args) {
		same := true
		for i := range a.Args {
			if a.Args[i].Sort != b.Args[i].Sort {
				same = false
				break
			}
		}
		if same {
			parts := make([]*Term, len(a.Args))
			for i := range a.Args {
				parts[i] = c.Eq(a.Args[i], b.Args[i])
			}
			return c.And(parts...)
		}
	}
	var cc, k *Term
	if a.Op == OpConcat && b.IsConst() {
		cc, k = a, b
	} else if b.Op == OpConcat && a.IsConst() {
		cc, k = b, a
	}
	if cc != nil {
		parts := make([]*Term, len(cc.Args))
		hi := cc.Sort.W - 1
		for i, p := range cc.Args {
			lo := hi - p.Sort.W + 1
			parts[i] = c.Eq(p, c.Extract(k, hi, lo))
			hi = lo - 1
		}
		return c.And(parts...)
	}
	return nil
}

func (c *Ctx) Ite(g, a, b *Term) *Term {
	if a.Sort != b.Sort {
		panic(fmt.Sprintf("Ite: sort mismatch %v vs %v", a.Sort, b.Sort))
	}
	if g.IsConst() {
		if g.CB {
			return a
		}
		return b
	}
	if a == b {
		return a
	}
	if a.Sort.K == SBool {
		if a.IsConst() && b.IsConst() {
			if a.CB {
				return g
			}
			return c.Not(g)
		}
		if a.IsConst() {
			if a.CB {
				return c.Or(g, b)
			}
			return c.And(c.Not(g), b)
		}
		if b.IsConst() {
			if b.CB {
				return c.Or(c.Not(g), a)
			}
			return c.And(g, a)
		}
	}
	return c.mk(OpIte, a.Sort, 0, 0, g, a, b)
}

// ---------------------------------------------------------------- bit-vectors

func (c *Ctx) bvConst2(op Op, a, b *Term) *Term {
	w := a.Sort.W
	if w > 64 {
		return c.bvConst2Big(op, a, b)
	}
	x, y := a.CV, b.CV
	m := maskW(w)
	sx, sy := signExtend(x, w), signExtend(y, w)
	switch op {
	case OpBVAdd:
		return c.BV(w, x+y)
	case OpBVSub:
		return c.BV(w, x-y)
	case OpBVMul:
		return c.BV(w, x*y)
	case OpBVUDiv:
		if y == 0 {
			return c.BV(w, m)
		}
		return c.BV(w, x/y)
	case OpBVURem:
		if y == 0 {
			return c.BV(w, x)
		}
		return c.BV(w, x%y)
	case OpBVSDiv:
		if y == 0 {
			if sx >= 0 {
				return c.BV(w, m)
			}
			return c.BV(w, 1)
		}
		if sy == -1 {
			return c.BV(w, uint64(-sx))
		}
		return c.BV(w, uint64(sx/sy))
	case OpBVSRem:
		if y == 0 {
			return c.BV(w, x)
		}
		if sy == -1 {
			return c.BV(w, 0)
		}
		return c.BV(w, uint64(sx%sy))
	case OpBVAnd:
		return c.BV(w, x&y)
	case OpBVOr:
		return c.BV(w, x|y)
	case OpBVXor:
		return c.BV(w, x^y)
	case OpBVShl:
		if y >= uint64(w) {
			return c.BV(w, 0)
		}
		return c.BV(w, x<<y)
	case OpBVLshr:
		if y >= uint64(w) {
			return c.BV(w, 0)
		}
		return c.BV(w, x>>y)
	case OpBVAshr:
		if y >= uint64(w) {
			if sx < 0 {
				return c.BV(w, m)
			}
			return c.BV(w, 0)
		}
		return c.BV(w, uint64(sx>>y))
	case OpBVUlt:
		return c.Bool(x < y)
	case OpBVUle:
		return c.Bool(x <= y)
	case OpBVSlt:
		return c.Bool(sx < sy)
	case OpBVSle:
		return c.Bool(sx <= sy)
	}
	panic("bvConst2")
}

func (c *Ctx) bvConst2Big(op Op, a, b *Term) *Term {
	w := a.Sort.W
	x, y := a.bvBig(), b.bvBig()
	r := new(big.Int)
	switch op {
	case OpBVAdd:
		return c.BVBig(w, r.Add(x, y))
	case OpBVSub:
		return c.BVBig(w, r.Sub(x, y))
	case OpBVAnd:
		return c.BVBig(w, r.And(x, y))
	case OpBVOr:
		return c.BVBig(w, r.Or(x, y))
	case OpBVXor:
		return c.BVBig(w, r.Xor(x, y))
	case OpBVUlt:
		return c.Bool(x.Cmp(y) < 0)
	case OpBVUle:
		return c.Bool(x.Cmp(y) <= 0)
	}
	return nil
}

func (c *Ctx) bv2(op Op, a, b *Term) *Term {
	if a.Sort != b.Sort || a.Sort.K != SBV {
		panic(fmt.Sprintf("bv2 %v: sorts %v %v", opNames[op], a.Sort, b.Sort))
	}
	if a.IsConst() && b.IsConst() {
		if r := c.bvConst2(op, a, b); r != nil {
			return r
		}
	}
	w := a.Sort.W
	isZero := func(t *Term) bool { return t.IsConst() && w <= 64 && t.CV == 0 }
	isOnes := func(t *Term) bool { return t.IsConst() && w <= 64 && t.CV == maskW(w) }
	rs := sortBool
	switch op {
	case OpBVUlt, OpBVUle, OpBVSlt, OpBVSle:
	default:
		rs = a.Sort
	}
	switch op {
	case OpBVAdd:
		if isZero(a) {
			return b
		}
		if isZero(b) {
			return a
		}
		if a.IsConst() { // keep constants on the right
			a, b = b, a
		}
		// (x + c1) + c2
		if b.IsConst() && a.Op == OpBVAdd && a.Args[1].IsConst() && w <= 64 {
			return c.bv2(OpBVAdd, a.Args[0], c.BV(w, a.Args[1].CV+b.CV))
		}
	case OpBVSub:
		if isZero(b) {
			return a
		}
		if a == b {
			return c.BV(w, 0)
		}
		if b.IsConst() && w <= 64 {
			return c.bv2(OpBVAdd, a, c.BV(w, -b.CV))
		}
	case OpBVMul:
		if isZero(a) || isZero(b) {
			return c.BV(w, 0)
		}
		if a.IsConst() && w <= 64 && a.CV == 1 {
			return b
		}
		if b.IsConst() && w <= 64 && b.CV == 1 {
			return a
		}
	case OpBVAnd:
		if isZero(a) || isZero(b) {
			return c.BV(w, 0)
		}
		if isOnes(a) {
			return b
		}
		if isOnes(b) {
			return a
		}
		if a == b {
			return a
		}
	case OpBVOr:
		if isZero(a) {
			return b
		}
		if isZero(b) {
			return a
		}
		if a == b {
			return a
		}
	case OpBVXor:
		if isZero(a) {
			return b
		}
		if isZero(b) {
			return a
		}
		if a == b {
			return c.BV(w, 0)
		}
	case OpBVShl, OpBVLshr, OpBVAshr:
		if isZero(b) {
			return a
		}
		if b.IsConst() && w <= 64 {
			if r := c.shiftConst(op, a, int(minU64(b.CV, uint64(w)))); r != nil {
				return r
			}
		}
	case OpBVUlt:
		if a == b {
			return c.tF
		}
		if isZero(b) {
			return c.tF
		}
	case OpBVUle:
		if a == b {
			return c.tT
		}
		if isZero(a) {
			return c.tT
		}
	case OpBVSlt:
		if a == b {
			return c.tF
		}
	case OpBVSle:
		if a == b {
			return c.tT
		}
	}
	// comparisons of zero-extended values against small constants
	if rs == sortBool {
		if r := c.cmpZext(op, a, b); r != nil {
			return r
		}
	}
	return c.mk(op, rs, 0, 0, a, b)
}

func minU64(a, b uint64) uint64 {
	if a < b {
		return a
	}
	return b
}

// shiftConst rewrites shifts by constants into extract/concat, which the
// simplifier can see through (byte packing/unpacking in encoding/binary).
func (c *Ctx) shiftConst(op Op, a *Term, n int) *Term {
	w := a.Sort.W
	if n >= w {
		if op == OpBVAshr {
			return nil
		}
		return c.BV(w, 0)
	}
	switch op {
	case OpBVShl:
		return c.Concat(c.Extract(a, w-1-n, 0), c.BV(n, 0))
	case OpBVLshr:
		return c.Concat(c.BV(n, 0), c.Extract(a, w-1, n))
	case OpBVAshr:
		return c.SignExt(c.Extract(a, w-1, n), n)
	}
	return nil
}

// cmpZext: (zero_ext x) < const etc. where both sides fit the narrow width.
func (c *Ctx) cmpZext(op Op, a, b *Term) *Term {
	strip := func(t *Term) (*Term, bool) {
		if t.Op == OpZeroExt {
			return t.Args[0], true
		}
		if t.Op == OpConcat && len(t.Args) == 2 && t.Args[0].IsConst() && t.Args[0].Sort.W <= 64 && t.Args[0].CV == 0 {
			return t.Args[1], true
		}
		return nil, false
	}
	w := a.Sort.W
	if w > 64 {
		return nil
	}
	xa, oka := strip(a)
	xb, okb := strip(b)
	if oka && okb && xa.Sort == xb.Sort {
		switch op {
		case OpBVUlt, OpBVSlt:
			return c.bv2(OpBVUlt, xa, xb)
		case OpBVUle, OpBVSle:
			return c.bv2(OpBVUle, xa, xb)
		}
	}
	if oka && b.IsConst() {
		nw := xa.Sort.W
		sb := signExtend(b.CV, w)
		signed := op == OpBVSlt || op == OpBVSle
		if signed && sb < 0 {
			return c.tF // non-negative value < / <= negative constant
		}
		if b.CV > maskW(nw) {
			return c.tT
		}
		kb := c.BV(nw, b.CV)
		switch op {
		case OpBVUlt, OpBVSlt:
			return c.bv2(OpBVUlt, xa, kb)
		case OpBVUle, OpBVSle:
			return c.bv2(OpBVUle, xa, kb)
		}
	}
	if okb && a.IsConst() {
		nw := xb.Sort.W
		sa := signExtend(a.CV, w)
		signed := op == OpBVSlt || op == OpBVSle
		if signed && sa < 0 {
			return c.tT
		}
		if a.CV > maskW(nw) {
			return c.tF
		}
		ka := c.BV(nw, a.CV)
		switch op {
		case OpBVUlt, OpBVSlt:
			return c.bv2(OpBVUlt, ka, xb)
		case OpBVUle, OpBVSle:
			return c.bv2(OpBVUle, ka, xb)
		}
	}
	return nil
}

func (c *Ctx) BVAdd(a, b *Term) *Term  { return c.bv2(OpBVAdd, a, b) }
func (c *Ctx) BVSub(a, b *Term) *Term  { return c.bv2(OpBVSub, a, b) }
func (c *Ctx) BVMul(a, b *Term) *Term  { return c.bv2(OpBVMul, a, b) }
func (c *Ctx) BVUDiv(a, b *Term) *Term { return c.bv2(OpBVUDiv, a, b) }
func (c *Ctx) BVURem(a, b *Term) *Term { return c.bv2(OpBVURem, a, b) }
func (c *Ctx) BVSDiv(a, b *Term) *Term { return c.bv2(OpBVSDiv, a, b) }
func (c *Ctx) BVSRem(a, b *Term) *Term { return c.bv2(OpBVSRem, a, b) }
func (c *Ctx) BVAnd(a, b *Term) *Term  { return c.bv2(OpBVAnd, a, b) }
func (c *Ctx) BVOr(a, b *Term) *Term {
	// or of disjoint zero-padded pieces = concat (byte packing)
	if r := c.orAsConcat(a, b); r != nil {
		return r
	}
	return c.bv2(OpBVOr, a, b)
}
func (c *Ctx) BVXor(a, b *Term) *Term  { return c.bv2(OpBVXor, a, b) }
func (c *Ctx) BVShl(a, b *Term) *Term  { return c.bv2(OpBVShl, a, b) }
func (c *Ctx) BVLshr(a, b *Term) *Term { return c.bv2(OpBVLshr, a, b) }
func (c *Ctx) BVAshr(a, b *Term) *Term { return c.bv2(OpBVAshr, a, b) }
func (c *Ctx) BVUlt(a, b *Term) *Term  { return c.bv2(OpBVUlt, a, b) }
func (c *Ctx) BVUle(a, b *Term) *Term  { return c.bv2(OpBVUle, a, b) }
func (c *Ctx) BVSlt(a, b *Term) *Term  { return c.bv2(OpBVSlt, a, b) }
func (c *Ctx) BVSle(a, b *Term) *Term  { return c.bv2(OpBVSle, a, b) }

// pieces returns the term as a list of (piece) from msb to lsb if it is a
// concat (or a zero-extension), else a single piece.
func (c *Ctx) pieces(t *Term) []*Term {
	switch t.Op {
	case OpConcat:
		return t.Args
	case OpZeroExt:
		return append([]*Term{c.BV(t.A, 0)}, c.pieces(t.Args[0])...)
	}
	return []*Term{t}
}

func isZeroConst(t *Term) bool {
	if !t.IsConst() {
		return false
	}
	if t.Sort.W <= 64 {
		return t.CV == 0
	}
	return t.CI.Sign() == 0
}

func (c *Ctx) orAsConcat(a, b *Term) *Term {
	if a.Sort.K != SBV || a.Sort != b.Sort || a.IsConst() && b.IsConst() {
		return nil
	}
	pa, pb := c.pieces(a), c.pieces(b)
	if len(pa) == 1 && len(pb) == 1 {
		return nil
	}
	// walk both piece lists bit-aligned; at each segment one side must be zero
	w := a.Sort.W
	type seg struct {
		t      *Term
		hi, lo int
	}
	mk := func(ps []*Term) []seg {
		var out []seg
		hi := w - 1
		for _, p := range ps {
			lo := hi - p.Sort.W + 1
			out = append(out, seg{p, hi, lo})
			hi = lo - 1
		}
		return out
	}
	sa, sb := mk(pa), mk(pb)
	var res []*Term
	i, j := 0, 0
	hi := w - 1
	for hi >= 0 {
		x, y := sa[i], sb[j]
		lo := x.lo
		if y.lo > lo {
			lo = y.lo
		}
		px := c.Extract(x.t, hi-x.lo, lo-x.lo)
		py := c.Extract(y.t, hi-y.lo, lo-y.lo)
		switch {
		case isZeroConst(px):
			res = append(res, py)
		case isZeroConst(py):
			res = append(res, px)
		default:
			return nil
		}
		hi = lo - 1
		if x.lo == lo {
			i++
		}
		if y.lo == lo {
			j++
		}
	}
	return c.Concat(res...)
}

func (c *Ctx) BVNot(a *Term) *Term {
	if a.IsConst() && a.Sort.W <= 64 {
		return c.BV(a.Sort.W, ^a.CV)
	}
	if a.Op == OpBVNot {
		return a.Args[0]
	}
	return c.mk(OpBVNot, a.Sort, 0, 0, a)
}

func (c *Ctx) BVNeg(a *Term) *Term {
	if a.IsConst() && a.Sort.W <= 64 {
		return c.BV(a.Sort.W, -a.CV)
	}
	return c.mk(OpBVNeg, a.Sort, 0, 0, a)
}

func (c *Ctx) Concat(xs ...*Term) *Term {
	// flatten, merge adjacent constants and adjacent extracts of the same term
	var flat []*Term
	for _, x := range xs {
		if x.Sort.W == 0 {
			continue
		}
		if x.Op == OpConcat {
			flat = append(flat, x.Args...)
		} else {
			flat = append(flat, x)
		}
	}
	var out []*Term
	for _, x := range flat {
		if n := len(out); n > 0 {
			p := out[n-1]
			if p.IsConst() && x.IsConst() {
				w := p.Sort.W + x.Sort.W
				v := new(big.Int).Lsh(p.bvBig(), uint(x.Sort.W))
				v.Or(v, x.bvBig())
				out[n-1] = c.BVBig(w, v)
				continue
			}
			if p.Op == OpExtract && x.Op == OpExtract && p.Args[0] == x.Args[0] && p.B == x.A+1 {
				out[n-1] = c.Extract(p.Args[0], p.A, x.B)
				continue
			}
		}
		out = append(out, x)
	}
	if len(out) == 1 {
		return out[0]
	}
	w := 0
	for _, x := range out {
		w += x.Sort.W
	}
	return c.mk(OpConcat, bvSort(w), 0, 0, out...)
}

func (c *Ctx) Extract(a *Term, hi, lo int) *Term {
	w := a.Sort.W
	if hi >= w || lo < 0 || hi < lo {
		panic(fmt.Sprintf("Extract[%d:%d] of width %d", hi, lo, w))
	}
	if lo == 0 && hi == w-1 {
		return a
	}
	nw := hi - lo + 1
	if a.IsConst() {
		v := new(big.Int).Rsh(a.bvBig(), uint(lo))
		return c.BVBig(nw, v)
	}
	switch a.Op {
	case OpExtract:
		return c.Extract(a.Args[0], a.B+hi, a.B+lo)
	case OpConcat:
		// select pieces
		var parts []*Term
		phi := w - 1
		for _, p := range a.Args {
			plo := phi - p.Sort.W + 1
			// overlap of [hi,lo] with [phi,plo]
			oh, ol := hi, lo
			if phi < oh {
				oh = phi
			}
			if plo > ol {
				ol = plo
			}
			if oh >= ol {
				parts = append(parts, c.Extract(p, oh-plo, ol-plo))
			}
			phi = plo - 1
		}
		return c.Concat(parts...)
	case OpZeroExt:
		iw := a.Args[0].Sort.W
		if hi < iw {
			return c.Extract(a.Args[0], hi, lo)
		}
		if lo >= iw {
			return c.BV(nw, 0)
		}
		return c.Concat(c.BV(hi-iw+1, 0), c.Extract(a.Args[0], iw-1, lo))
	case OpSignExt:
		iw := a.Args[0].Sort.W
		if hi < iw {
			return c.Extract(a.Args[0], hi, lo)
		}
	case OpBVAnd, OpBVOr, OpBVXor:
		return c.bv2(a.Op, c.Extract(a.Args[0], hi, lo), c.Extract(a.Args[1], hi, lo))
	case OpIte:
		if a.Args[1].IsConst() || a.Args[2].IsConst() {
			return c.Ite(a.Args[0], c.Extract(a.Args[1], hi, lo), c.Extract(a.Args[2], hi, lo))
		}
	}
	return c.mk(OpExtract, bvSort(nw), hi, lo, a)
}

func (c *Ctx) ZeroExt(a *Term, n int) *Term {
	if n == 0 {
		return a
	}
	return c.Concat(c.BV(n, 0), a)
}

func (c *Ctx) SignExt(a *Term, n int) *Term {
	if n == 0 {
		return a
	}
	w := a.Sort.W
	if a.IsConst() && w <= 64 && w+n <= 64 {
		return c.BV(w+n, uint64(signExtend(a.CV, w)))
	}
	// sign-extension of a value with a zero top piece is a zero-extension
	if a.Op == OpConcat && isZeroConst(a.Args[0]) {
		return c.ZeroExt(a, n)
	}
	return c.mk(OpSignExt, bvSort(w+n), n, 0, a)
}

// Resize converts a bit-vector to width w (truncate or extend).
func (c *Ctx) Resize(a *Term, w int, signed bool) *Term {
	aw := a.Sort.W
	switch {
	case w == aw:
		return a
	case w < aw:
		return c.Extract(a, w-1, 0)
	case signed:
		return c.SignExt(a, w-aw)
	}
	return c.ZeroExt(a, w-aw)
}

// ---------------------------------------------------------------- integers

func (c *Ctx) IAdd(a, b *Term) *Term {
	if a.IsConst() && b.IsConst() {
		return c.Int(new(big.Int).Add(a.CI, b.CI))
	}
	if a.IsConst() && a.CI.Sign() == 0 {
		return b
	}
	if b.IsConst() && b.CI.Sign() == 0 {
		return a
	}
	return c.mk(OpIAdd, sortInt, 0, 0, a, b)
}

func (c *Ctx) ISub(a, b *Term) *Term {
	if a.IsConst() && b.IsConst() {
		return c.Int(new(big.Int).Sub(a.CI, b.CI))
	}
	if b.IsConst() && b.CI.Sign() == 0 {
		return a
	}
	if a == b {
		return c.IntI(0)
	}
	return c.mk(OpISub, sortInt, 0, 0, a, b)
}

func (c *Ctx) IMul(a, b *Term) *Term {
	if a.IsConst() && b.IsConst() {
		return c.Int(new(big.Int).Mul(a.CI, b.CI))
	}
	for _, p := range [][2]*Term{{a, b}, {b, a}} {
		if p[0].IsConst() {
			if p[0].CI.Sign() == 0 {
				return c.IntI(0)
			}
			if p[0].CI.IsInt64() && p[0].CI.Int64() == 1 {
				return p[1]
			}
		}
	}
	return c.mk(OpIMul, sortInt, 0, 0, a, b)
}

func (c *Ctx) INeg(a *Term) *Term {
	if a.IsConst() {
		return c.Int(new(big.Int).Neg(a.CI))
	}
	if a.Op == OpINeg {
		return a.Args[0]
	}
	return c.mk(OpINeg, sortInt, 0, 0, a)
}

func (c *Ctx) ILe(a, b *Term) *Term {
	if a.IsConst() && b.IsConst() {
		return c.Bool(a.CI.Cmp(b.CI) <= 0)
	}
	if a == b {
		return c.tT
	}
	return c.mk(OpILe, sortBool, 0, 0, a, b)
}

func (c *Ctx) ILt(a, b *Term) *Term {
	if a.IsConst() && b.IsConst() {
		return c.Bool(a.CI.Cmp(b.CI) < 0)
	}
	if a == b {
		return c.tF
	}
	return c.mk(OpILt, sortBool, 0, 0, a, b)
}

// IDiv/IMod: SMT-LIB euclidean div/mod; only used with positive constant divisors.
func (c *Ctx) IDiv(a, b *Term) *Term {
	if a.IsConst() && b.IsConst() && b.CI.Sign() > 0 {
		q, m := new(big.Int).DivMod(a.CI, b.CI, new(big.Int))
		_ = m
		return c.Int(q)
	}
	return c.mk(OpIDiv, sortInt, 0, 0, a, b)
}

func (c *Ctx) IMod(a, b *Term) *Term {
	if a.IsConst() && b.IsConst() && b.CI.Sign() > 0 {
		_, m := new(big.Int).DivMod(a.CI, b.CI, new(big.Int))
		return c.Int(m)
	}
	return c.mk(OpIMod, sortInt, 0, 0, a, b)
}

func (c *Ctx) BV2Nat(a *Term) *Term {
	if a.IsConst() {
		return c.Int(a.bvBig())
	}
	return c.mk(OpBV2Nat, sortInt, 0, 0, a)
}

func (c *Ctx) Int2BV(a *Term, w int) *Term {
	if a.IsConst() {
		return c.BVBig(w, a.CI)
	}
	if a.Op == OpBV2Nat {
		return c.Resize(a.Args[0], w, false)
	}
	return c.mk(OpInt2BV, bvSort(w), w, 0, a)
}

// ---------------------------------------------------------------- printing

func (t *Term) constString() string {
	switch t.Sort.K {
	case SBool:
		if t.CB {
			return "true"
		}
		return "false"
	case SInt:
		if t.CI.Sign() < 0 {
			return "(- " + new(big.Int).Neg(t.CI).String() + ")"
		}
		return t.CI.String()
	}
	w := t.Sort.W
	if w%4 == 0 {
		s := t.bvBig().Text(16)
		return "#x" + strings.Repeat("0", w/4-len(s)) + s
	}
	s := t.bvBig().Text(2)
	return "#b" + strings.Repeat("0", w-len(s)) + s
}

// ref returns the name by which the term is referred to in solver scripts.
func (t *Term) ref() string {
	switch t.Op {
	case OpConst:
		return t.constString()
	case OpVar:
		return t.Name
	}
	return fmt.Sprintf("t%d", t.id)
}

// body returns the SMT-LIB expression (one level; arguments by reference).
func (t *Term) body() string {
	var sb strings.Builder
	switch t.Op {
	case OpExtract:
		fmt.Fprintf(&sb, "((_ extract %d %d) %s)", t.A, t.B, t.Args[0].ref())
	case OpZeroExt:
		fmt.Fprintf(&sb, "((_ zero_extend %d) %s)", t.A, t.Args[0].ref())
	case OpSignExt:
		fmt.Fprintf(&sb, "((_ sign_extend %d) %s)", t.A, t.Args[0].ref())
	case OpInt2BV:
		fmt.Fprintf(&sb, "((_ int2bv %d) %s)", t.A, t.Args[0].ref())
	default:
		sb.WriteString("(")
		sb.WriteString(opNames[t.Op])
		for _, a := range t.Args {
			sb.WriteString(" ")
			sb.WriteString(a.ref())
		}
		sb.WriteString(")")
	}
	return sb.String()
}

// String renders a (small) term fully, for diagnostics.
func (t *Term) String() string {
	return t.render(0)
}

func (t *Term) render(d int) string {
	if t.Op == OpConst || t.Op == OpVar {
		return t.ref()
	}
	if d > 6 {
		return "…"
	}
	var sb strings.Builder
	switch t.Op {
	case OpExtract:
		fmt.Fprintf(&sb, "((_ extract %d %d) %s)", t.A, t.B, t.Args[0].render(d+1))
		return sb.String()
	case OpSignExt:
		fmt.Fprintf(&sb, "((_ sign_extend %d) %s)", t.A, t.Args[0].render(d+1))
		return sb.String()
	case OpInt2BV:
		fmt.Fprintf(&sb, "((_ int2bv %d) %s)", t.A, t.Args[0].render(d+1))
		return sb.String()
	}
	sb.WriteString("(")
	sb.WriteString(opNames[t.Op])
	for _, a := range t.Args {
		sb.WriteString(" ")
		sb.WriteString(a.render(d + 1))
	}
	sb.WriteString(")")
	return sb.String()
}
