package client

// Overlay-only file (not part of the repository): entry points that let the
// verification harnesses build a client situation directly and call the
// request handlers without the dispatch loop.

import (
	"github.com/pkg/errors"

	"perun.network/go-perun/channel"
	"perun.network/go-perun/wallet"
	"perun.network/go-perun/wire"
)

// VerifAdoptChannel creates a channel object from a source (arbitrary machine
// state) exactly as Restore does and puts it into the client's registry.
func (c *Client) VerifAdoptChannel(src channel.Source, peers []map[wallet.BackendID]wire.Address, parent *Channel) (*Channel, error) {
	ch, err := c.channelFromSource(src, parent, peers)
	if err != nil {
		return nil, err
	}
	if !c.channels.Put(ch.ID(), ch) {
		return nil, errors.New("channel exists")
	}
	return ch, nil
}

// VerifHandleChannelUpdate calls the update request handler.
func (c *Client) VerifHandleChannelUpdate(uh UpdateHandler, p map[wallet.BackendID]wire.Address, m ChannelUpdateProposal) {
	c.handleChannelUpdate(uh, p, m)
}

// VerifHandleChannelProposal calls the proposal request handler.
func (c *Client) VerifHandleChannelProposal(ph ProposalHandler, p map[wallet.BackendID]wire.Address, m ChannelProposal) {
	c.handleChannelProposal(ph, p, m)
}

// VerifHandleSyncMsg calls the sync request handler.
func (c *Client) VerifHandleSyncMsg(p map[wallet.BackendID]wire.Address, m *ChannelSyncMsg) {
	c.handleSyncMsg(p, m)
}

// VerifMachMtxFree reports whether the channel's machine mutex is free.
func (c *Channel) VerifMachMtxFree() bool {
	if c.machMtx.TryLock() {
		c.machMtx.Unlock()
		return true
	}
	return false
}

// VerifMachine exposes the machine's source view.
func (c *Channel) VerifMachine() channel.Source { return c.machine.StateMachine }

// VerifRegisterSubChannelFunding installs the funding interceptor as
// completeCPP does for the proposee of a sub-channel.
func (c *Channel) VerifRegisterSubChannelFunding(id channel.ID, bals channel.Balances) {
	c.registerSubChannelFunding(id, bals)
}

// VerifRegisterSubChannelSettlement installs the settlement interceptor as
// acceptUpdate does for a final sub-channel state.
func (c *Channel) VerifRegisterSubChannelSettlement(id channel.ID, bals [][]channel.Bal) {
	c.registerSubChannelSettlement(id, bals)
}

// VerifAwaitSubChannelFunding / Withdrawal run the accepting side of the interceptors.
func (c *Channel) VerifAwaitSubChannelFunding(ctx Ctx, id channel.ID) error {
	return c.awaitSubChannelFunding(ctx, id)
}

// VerifAwaitSubChannelWithdrawal see VerifAwaitSubChannelFunding.
func (c *Channel) VerifAwaitSubChannelWithdrawal(ctx Ctx, id channel.ID) error {
	return c.awaitSubChannelWithdrawal(ctx, id)
}

// VerifValidChannelProposalAcc exposes validChannelProposalAcc.
func (c *Client) VerifValidChannelProposalAcc(p ChannelProposal, a ChannelProposalAccept) error {
	return c.validChannelProposalAcc(p, a)
}

// VerifDeriveParams is the parameter derivation of completeCPP.
func (c *Client) VerifDeriveParams(prop ChannelProposal, acc ChannelProposalAccept) *channel.Params {
	propBase := prop.Base()
	return channel.NewParamsUnsafe(
		propBase.ChallengeDuration,
		c.mpcppParts(prop, acc),
		propBase.App,
		calcNonce(nonceShares(propBase.NonceShare, acc.Base().NonceShare)),
		prop.Type() == wire.LedgerChannelProposal,
		prop.Type() == wire.VirtualChannelProposal,
		propBase.Aux,
	)
}

// VerifPersistVirtualChannel creates the hub's view of a funded virtual channel
// as matchFundingProposal does.
func (c *Client) VerifPersistVirtualChannel(ctx Ctx, parent *Channel, peers []map[wallet.BackendID]wire.Address, params channel.Params, state channel.State, sigs []wallet.Sig) (*Channel, error) {
	return c.persistVirtualChannel(ctx, parent, peers, params, state, sigs)
}

// VerifLocked runs f with the channel's machine mutex held (so that a harness
// reading the machine synchronises with the protocol goroutines as API users
// do) and reports whether the mutex could be taken.
func (c *Channel) VerifLocked(f func(channel.Source)) bool {
	if !c.machMtx.TryLock() {
		return false
	}
	defer c.machMtx.Unlock()
	f(c.machine.StateMachine)
	return true
}

// VerifEnableVer1Cache / VerifReleaseVer1Cache bracket a channel opening as
// ProposeChannel and handleChannelProposalAcc do.
func (c *Client) VerifEnableVer1Cache() { c.enableVer1Cache() }

// VerifReleaseVer1Cache see VerifEnableVer1Cache.
func (c *Client) VerifReleaseVer1Cache() { c.releaseVer1Cache() }
