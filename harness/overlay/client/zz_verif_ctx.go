package client

import "context"

// Ctx is context.Context (overlay-only alias for the export helpers).
type Ctx = context.Context
