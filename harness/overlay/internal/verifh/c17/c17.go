// Package c17: the channel ID commits to the channel parameters.
package c17

import (
	"bytes"
	cryptorand "crypto/rand"
	"math/big"

	simwallet "perun.network/go-perun/backend/sim/wallet"
	"perun.network/go-perun/channel"
	"perun.network/go-perun/internal/verifh/gen"
	rt "perun.network/go-perun/internal/verifrt"
	"perun.network/go-perun/wallet"
)

type fields struct {
	dur     uint64
	parts   []*simwallet.Address
	appKind int
	appDef  *simwallet.Address
	nonce   *big.Int
	ledger  bool
	virtual bool
	aux     channel.Aux
}

func partsOf(f *fields) []map[wallet.BackendID]wallet.Address {
	out := make([]map[wallet.BackendID]wallet.Address, len(f.parts))
	for i, a := range f.parts {
		out[i] = map[wallet.BackendID]wallet.Address{channel.TestBackendID: a}
	}
	return out
}

func appOf(f *fields) channel.App {
	if f.appKind == 0 {
		return channel.NoApp()
	}
	return channel.NewMockApp(gen.AppIDOf(f.appDef))
}

// nonceOf: the nonce ranges over every byte length 0..k+1 in every tier (its
// encoding is length-dependent, so pairs of different lengths matter).
func nonceOf(k int) *big.Int { return rt.NondetBig(k + 1) }

func symFields(n int) *fields {
	k := rt.Bound("K", 1)
	f := &fields{dur: rt.NondetU64(), appKind: rt.Choice(2), nonce: nonceOf(k), ledger: rt.NondetBool(), virtual: rt.NondetBool()}
	rt.Assume(f.dur != 0)
	for i := 0; i < n; i++ {
		f.parts = append(f.parts, gen.Address(k))
	}
	if f.appKind == 1 {
		f.appDef = gen.Address(k)
	}
	f.aux[0], f.aux[255] = rt.NondetU8(), rt.NondetU8()
	return f
}

func build(f *fields) (*channel.Params, error) {
	return channel.NewParams(f.dur, partsOf(f), appOf(f), f.nonce, f.ledger, f.virtual, f.aux)
}

func addrEq(a, b *simwallet.Address) bool {
	return rt.And(rt.BigEq(a.X, b.X), rt.BigEq(a.Y, b.Y))
}

// same is the reference: all ID-relevant fields equal (aux excluded).
func same(f, g *fields) bool {
	if len(f.parts) != len(g.parts) || f.appKind != g.appKind {
		return false
	}
	eq := rt.And(f.dur == g.dur, rt.And(rt.BigEq(f.nonce, g.nonce), rt.And(f.ledger == g.ledger, f.virtual == g.virtual)))
	for i := range f.parts {
		eq = rt.And(eq, addrEq(f.parts[i], g.parts[i]))
	}
	if f.appKind == 1 {
		eq = rt.And(eq, addrEq(f.appDef, g.appDef))
	}
	return eq
}

// variant copies f and replaces one field by a fresh arbitrary value.
func variant(f *fields) *fields {
	k := rt.Bound("K", 1)
	g := *f
	g.parts = append([]*simwallet.Address(nil), f.parts...)
	switch rt.Choice(10) {
	case 0:
		g.dur = rt.NondetU64()
		rt.Assume(g.dur != 0)
	case 1:
		g.nonce = nonceOf(k)
	case 2:
		i := rt.Choice(len(g.parts))
		g.parts[i] = &simwallet.Address{X: gen.BigK(k), Y: g.parts[i].Y}
	case 3:
		i := rt.Choice(len(g.parts))
		g.parts[i] = &simwallet.Address{X: g.parts[i].X, Y: gen.BigK(k)}
	case 4:
		g.parts[0], g.parts[1] = g.parts[1], g.parts[0]
	case 5:
		g.appKind = rt.Choice(2)
		if g.appKind == 1 {
			g.appDef = gen.Address(k)
		}
	case 6:
		g.ledger = rt.NondetBool()
	case 7:
		g.virtual = rt.NondetBool()
	case 8:
		g.aux[0] = rt.NondetU8()
	case 9:
		// one participant more (its address may equal an existing one)
		g.parts = append(g.parts, gen.Address(k))
	}
	return &g
}

// VerifC17Injective: p.ID() == q.ID()  <=>  all fields except aux are equal.
func VerifC17Injective() {
	gen.Setup()
	f := symFields(2 + rt.Choice(rt.Bound("extraParts", 1)))
	g := variant(f)
	p, err1 := build(f)
	q, err2 := build(g)
	rt.Assert("c17.inj.accepts-valid", err1 == nil && err2 == nil)
	rt.Reach("c17.inj")
	rt.Assert("c17.inj.id-iff-fields", (p.ID() == q.ID()) == same(f, g))
	rt.Assert("c17.inj.nonzero", p.ID() != channel.Zero)
}

// VerifC17Independent: two independently drawn parameter sets.
func VerifC17Independent() {
	gen.Setup()
	f, g := symFields(2), symFields(2)
	p, _ := build(f)
	q, _ := build(g)
	rt.Reach("c17.indep")
	rt.Assert("c17.indep.id-iff-fields", (p.ID() == q.ID()) == same(f, g))
}

// VerifC17CloneRoundTrip: clones and decoded encodings have the same ID and fields.
func VerifC17CloneRoundTrip() {
	gen.Setup()
	f := symFields(2)
	p, err := build(f)
	rt.Assume(err == nil)
	if f.appKind == 1 {
		channel.RegisterApp(p.App)
	}
	c := p.Clone()
	rt.Assert("c17.clone.id", c.ID() == p.ID())
	rt.Assert("c17.clone.fields", sameParams(p, c))
	var buf bytes.Buffer
	rt.Assert("c17.rt.enc-ok", p.Encode(&buf) == nil)
	var d channel.Params
	rt.Assert("c17.rt.dec-ok", d.Decode(&buf) == nil)
	rt.Reach("c17.rt")
	rt.Assert("c17.rt.id", d.ID() == p.ID())
	rt.Assert("c17.rt.fields", sameParams(p, &d))
	rt.Assert("c17.rt.aux", d.Aux == p.Aux)
	rt.Assert("c17.rt.consumed", buf.Len() == 0)
}

func sameParams(p, q *channel.Params) bool {
	if len(p.Parts) != len(q.Parts) {
		return false
	}
	eq := rt.And(p.ChallengeDuration == q.ChallengeDuration, rt.And(rt.BigEq(p.Nonce, q.Nonce),
		rt.And(p.LedgerChannel == q.LedgerChannel, p.VirtualChannel == q.VirtualChannel)))
	for i := range p.Parts {
		a := p.Parts[i][channel.TestBackendID].(*simwallet.Address)
		b, ok := q.Parts[i][channel.TestBackendID].(*simwallet.Address)
		if !ok || len(q.Parts[i]) != 1 {
			return false
		}
		eq = rt.And(eq, addrEq(a, b))
	}
	if channel.IsNoApp(p.App) != channel.IsNoApp(q.App) {
		return false
	}
	if !channel.IsNoApp(p.App) {
		eq = rt.And(eq, p.App.Def().Equal(q.App.Def()))
	}
	return eq
}

type otherAddr struct{ *simwallet.Address }

func (otherAddr) BackendID() wallet.BackendID { return 7 }

// VerifC17Validate: NewParams refuses exactly what ValidateParameters documents.
func VerifC17Validate() {
	gen.Setup()
	a := gen.Address(1)
	mk := func(n int) []map[wallet.BackendID]wallet.Address {
		out := make([]map[wallet.BackendID]wallet.Address, n)
		for i := range out {
			out[i] = map[wallet.BackendID]wallet.Address{channel.TestBackendID: a}
		}
		return out
	}
	dur := rt.NondetU64()
	var aux channel.Aux
	ok := func(err error) bool { return err == nil }
	nonce := big.NewInt(5)
	var p *channel.Params
	var err error
	switch rt.Choice(9) {
	case 0: // duration
		p, err = channel.NewParams(dur, mk(2), channel.NoApp(), nonce, true, false, aux)
		rt.Assert("c17.val.duration", ok(err) == (dur != 0))
	case 1: // too few participants
		_, err = channel.NewParams(1, mk(rt.Choice(2)), channel.NoApp(), nonce, true, false, aux)
		rt.Assert("c17.val.minparts", !ok(err))
	case 2: // exactly the maximum / one more
		n := channel.MaxNumParts + rt.Choice(2)
		_, err = channel.NewParams(1, mk(n), channel.NoApp(), nonce, true, false, aux)
		rt.Assert("c17.val.maxparts", ok(err) == (n <= channel.MaxNumParts))
	case 3: // nil app
		_, err = channel.NewParams(1, mk(2), nil, nonce, true, false, aux)
		rt.Assert("c17.val.nilapp", !ok(err))
	case 4: // nil nonce
		_, err = channel.NewParams(1, mk(2), channel.NoApp(), nil, true, false, aux)
		rt.Assert("c17.val.nilnonce", !ok(err))
	case 5: // nonce of exactly 32 / 33 bytes
		l := 32 + rt.Choice(2)
		_, err = channel.NewParams(1, mk(2), channel.NoApp(), rt.NondetBigExact(l), true, false, aux)
		rt.Assert("c17.val.noncelen", ok(err) == (l <= channel.MaxNonceLen))
	case 6: // unknown backend
		parts := mk(2)
		parts[1] = map[wallet.BackendID]wallet.Address{7: otherAddr{a}}
		_, err = channel.NewParams(1, parts, channel.NoApp(), nonce, true, false, aux)
		rt.Assert("c17.val.unknown-backend", !ok(err))
	case 7: // address filed under a different backend id than its own
		parts := mk(2)
		parts[1] = map[wallet.BackendID]wallet.Address{3: a}
		_, err = channel.NewParams(1, parts, channel.NoApp(), nonce, true, false, aux)
		rt.Assert("c17.val.mismatched-backend", !ok(err))
	case 8: // a valid set is accepted and has the ID CalcID computes
		p, err = channel.NewParams(1, mk(2), channel.NoApp(), nonce, true, false, aux)
		rt.Assert("c17.val.accept", ok(err))
	}
	rt.Reach("c17.val")
	if p != nil && err == nil {
		id, cerr := channel.CalcID(p)
		rt.Assert("c17.val.id-is-calcid", cerr == nil && id == p.ID())
	}
}

// VerifC17StateID: states created by the machine carry the ID of the parameters.
func VerifC17StateID() {
	gen.Setup()
	acc := simwallet.NewRandomAccount(cryptorand.Reader)
	peer := gen.Address(1)
	parts := []map[wallet.BackendID]wallet.Address{
		{channel.TestBackendID: acc.Address()}, {channel.TestBackendID: peer},
	}
	p, err := channel.NewParams(1+uint64(rt.NondetU8()), parts, channel.NoApp(), gen.BigK(1), rt.NondetBool(), rt.NondetBool(), channel.Aux{})
	rt.Assume(err == nil)
	m, err := channel.NewStateMachine(map[wallet.BackendID]wallet.Account{channel.TestBackendID: acc}, *p)
	rt.Assert("c17.state.machine", err == nil)
	err = m.Init(gen.Allocation(1, 2, nil), channel.NoData())
	rt.Assert("c17.state.init-ok", err == nil)
	rt.Reach("c17.state")
	s := m.StagingState()
	rt.Assert("c17.state.id", s.ID == p.ID() && s.Version == 0)
}

// VerifC17DecodeValidates: the decoder refuses exactly what NewParams refuses:
// a well-formed encoding of parameters that violate one documented constraint
// (built as a plain struct, encoded with the real Encode) is an error, not a
// parameter set with an ID and not a panic.
func VerifC17DecodeValidates() {
	a := gen.Address(1)
	full := func() map[wallet.BackendID]wallet.Address {
		return map[wallet.BackendID]wallet.Address{channel.TestBackendID: a}
	}
	p := &channel.Params{ChallengeDuration: 1 + uint64(rt.NondetU8()), Parts: []map[wallet.BackendID]wallet.Address{full(), full()},
		App: channel.NoApp(), Nonce: big.NewInt(5), LedgerChannel: true}
	bad := true
	switch rt.Choice(6) {
	case 0: // valid (control)
		bad = false
	case 1:
		p.ChallengeDuration = 0
	case 2: // a participant without an address
		p.Parts[rt.Choice(2)] = map[wallet.BackendID]wallet.Address{}
	case 3: // a single participant
		p.Parts = p.Parts[:1]
	case 4: // nonce one byte too long
		p.Nonce = rt.NondetBigExact(channel.MaxNonceLen + 1)
	case 5: // three participants, the last without an address
		p.Parts = append(p.Parts, map[wallet.BackendID]wallet.Address{})
	}
	var buf bytes.Buffer
	rt.Assume(p.Encode(&buf) == nil)
	var q channel.Params
	var err error
	panicked := rt.Try(func() { err = q.Decode(&buf) })
	rt.Reach("c17.dec")
	rt.Assert("c17.dec.nopanic", !panicked)
	rt.Assert("c17.dec.refuses-invalid", panicked || (err != nil) == bad)
}
