package c12

import (
	"context"
	"sync"
	"time"
	"math/big"

	simwallet "perun.network/go-perun/backend/sim/wallet"
	"perun.network/go-perun/channel"
	"perun.network/go-perun/client"
	"perun.network/go-perun/internal/verifh/cw"
	"perun.network/go-perun/internal/verifh/gen"
	rt "perun.network/go-perun/internal/verifrt"
	"perun.network/go-perun/wallet"
	"perun.network/go-perun/wire"
)

// hub: the honest client as intermediary of a virtual channel V between the
// two (possibly malicious) remote parties Alice (w.Peer) and Bob (w.Stranger),
// with one ledger channel to each.
type hub struct {
	w          *cw.World
	chA, chB   *client.Channel
	curA, curB *channel.State
	idxA, idxB int // the hub's index in chA / chB
	vparams    *channel.Params
	vstate     *channel.State
	vsigs      []wallet.Sig
	assets     []channel.Asset
}

func addr(a *simwallet.Account) map[wallet.BackendID]wallet.Address {
	return map[wallet.BackendID]wallet.Address{channel.TestBackendID: a.Address()}
}

func newHub(withVirtualAllocated bool) *hub {
	gen.K, gen.Exact = 1, true
	h := &hub{w: cw.New(), idxA: rt.Choice(2), idxB: 0}
	w := h.w
	h.assets = gen.Assets(1)
	pA := w.ParamsWith(w.Peer, h.idxA, 7, false)
	pB := w.ParamsWith(w.Stranger, h.idxB, 8, false)
	vp, err := channel.NewParams(60, []map[wallet.BackendID]wallet.Address{addr(w.Peer), addr(w.Stranger)}, channel.NoApp(), big.NewInt(9), false, true, channel.Aux{})
	rt.Assume(err == nil)
	h.vparams = vp
	h.vstate = &channel.State{ID: vp.ID(), Version: 0, App: channel.NoApp(), Data: channel.NoData(),
		Allocation: channel.Allocation{Assets: h.assets, Backends: gen.Backends(1), Balances: channel.Balances{gen.Bals(2)}}}
	mk := func(p *channel.Params) *channel.State {
		return &channel.State{ID: p.ID(), Version: uint64(rt.NondetU8()), App: channel.NoApp(), Data: channel.NoData(),
			Allocation: channel.Allocation{Assets: h.assets, Backends: gen.Backends(1), Balances: channel.Balances{gen.Bals(2)}}}
	}
	h.curA, h.curB = mk(pA), mk(pB)
	if withVirtualAllocated {
		// V is funded: both parents hold its sub-allocation.
		sum := h.vstate.Sum()
		h.curA.Locked = []channel.SubAlloc{*channel.NewSubAlloc(vp.ID(), sum, h.honestMap(true))}
		h.curB.Locked = []channel.SubAlloc{*channel.NewSubAlloc(vp.ID(), sum, h.honestMap(false))}
	}
	h.chA = w.AdoptWith(w.Peer, w.PeerWire, pA, h.idxA, channel.Acting, h.curA, nil)
	h.chB = w.AdoptWith(w.Stranger, w.Other, pB, h.idxB, channel.Acting, h.curB, nil)
	return h
}

// honestMap: virtual participant 0 is Alice, 1 is Bob; in chA Bob is
// represented by the hub, in chB Alice is.
func (h *hub) honestMap(a bool) []channel.Index {
	if a {
		return []channel.Index{channel.Index(1 - h.idxA), channel.Index(h.idxA)}
	}
	return []channel.Index{channel.Index(h.idxB), channel.Index(1 - h.idxB)}
}

func (h *hub) signV(st *channel.State) []wallet.Sig {
	return []wallet.Sig{cw.SignAs(h.w.Peer, st), cw.SignAs(h.w.Stranger, st)}
}

func transform(b []channel.Bal, m []channel.Index) []channel.Bal {
	out := []channel.Bal{new(big.Int), new(big.Int)}
	for p, q := range m {
		out[q] = new(big.Int).Add(out[q], b[p])
	}
	return out
}

// honestFunding builds the funding proposal an honest party would send on the
// parent (a: chA from Alice, else chB from Bob).
func (h *hub) honestFunding(a bool) *client.VirtualChannelFundingProposalMsg {
	cur, peer, m := h.curB, h.w.Stranger, h.honestMap(a)
	peerIdx := 1 - h.idxB
	if a {
		cur, peer, peerIdx = h.curA, h.w.Peer, 1-h.idxA
	}
	to := cur.Clone()
	to.Version++
	d := transform(h.vstate.Balances[0], m)
	for i := range d {
		to.Balances[0][i] = new(big.Int).Sub(to.Balances[0][i], d[i])
	}
	to.AddSubAlloc(*channel.NewSubAlloc(h.vparams.ID(), h.vstate.Sum(), m))
	return &client.VirtualChannelFundingProposalMsg{
		ChannelUpdateMsg: client.ChannelUpdateMsg{ChannelUpdate: client.ChannelUpdate{State: to, ActorIdx: channel.Index(peerIdx)}, Sig: cw.SignAs(peer, to)},
		Initial:          channel.SignedState{Params: h.vparams, State: h.vstate, Sigs: h.signV(h.vstate)},
		IndexMap:         m,
	}
}

// NumFundingDev is the number of single deviations of craftFunding.
const NumFundingDev = 14

// craftFunding: Alice's proposal on chA with one deviation from the honest
// one. The parent update is always correctly signed by Alice.
func (h *hub) craftFunding(dev int) *client.VirtualChannelFundingProposalMsg {
	m := h.honestFunding(true)
	w := h.w
	to := m.State
	resign := func() { m.Sig = cw.SignAs(w.Peer, to) }
	switch dev {
	case 0: // honest
	case 1: // arbitrary debits: the parent balances are any pair with the right total
		a := gen.Bal()
		b := new(big.Int).Sub(new(big.Int).Add(to.Balances[0][0], to.Balances[0][1]), a)
		rt.Assume(b.Sign() >= 0)
		to.Balances[0][0], to.Balances[0][1] = a, b
		resign()
	case 2: // arbitrary index map entries (consistently used in the sub-allocation)
		im := []channel.Index{channel.Index(rt.NondetU16()), channel.Index(rt.NondetU16())}
		m.IndexMap = im
		to.Locked[len(to.Locked)-1].IndexMap = im
		resign()
	case 3: // index map of another length
		im := gen.IndexMap([]int{0, 1, 3}[rt.Choice(3)])
		m.IndexMap = im
		to.Locked[len(to.Locked)-1].IndexMap = im
		resign()
	case 4: // ledger flag instead of virtual flag
		p := *h.vparams
		p.VirtualChannel, p.LedgerChannel = false, true
		vp, err := channel.NewParams(p.ChallengeDuration, p.Parts, p.App, p.Nonce, true, false, p.Aux)
		rt.Assume(err == nil)
		st := h.vstate.Clone()
		st.ID = vp.ID()
		m.Initial = channel.SignedState{Params: vp, State: st, Sigs: h.signV(st)}
		to.Locked[len(to.Locked)-1].ID = vp.ID()
		resign()
	case 5: // initial state of another channel
		st := h.vstate.Clone()
		st.ID = gen.ID()
		m.Initial.State, m.Initial.Sigs = st, h.signV(st)
	case 6: // initial state with locked funds
		st := h.vstate.Clone()
		st.Locked = []channel.SubAlloc{{ID: gen.ID(), Bals: gen.Bals(1), IndexMap: []channel.Index{0, 1}}}
		m.Initial.State, m.Initial.Sigs = st, h.signV(st)
	case 7: // more signatures than participants
		m.Initial.Sigs = append(m.Initial.Sigs, cw.SignAs(w.Peer, h.vstate))
	case 8: // missing signatures
		m.Initial.Sigs = m.Initial.Sigs[:rt.Choice(2)]
	case 9: // a signature that does not verify
		i := rt.Choice(2)
		if rt.Choice(2) == 0 {
			m.Initial.Sigs[i] = make([]byte, 64)
		} else {
			m.Initial.Sigs[i] = m.Initial.Sigs[1-i]
		}
	case 10: // other assets in the virtual channel
		st := h.vstate.Clone()
		st.Assets = gen.Assets(1)
		m.Initial.State, m.Initial.Sigs = st, h.signV(st)
	case 11: // sub-allocation with another amount than the virtual channel holds
		to.Locked[len(to.Locked)-1].Bals = gen.Bals(1)
		a := gen.Bal()
		to.Balances[0][0], to.Balances[0][1] = a, new(big.Int)
		b := new(big.Int).Sub(gen.SumBals(h.curA.Sum()), gen.SumBals(to.Sum()))
		rt.Assume(b.Sign() >= 0)
		to.Balances[0][1] = b
		resign()
	case 12: // no sub-allocation at all (plain payment dressed as funding)
		to.Locked = to.Locked[:len(to.Locked)-1]
		a := gen.Bal()
		to.Balances[0][0], to.Balances[0][1] = a, new(big.Int)
		b := new(big.Int).Sub(gen.SumBals(h.curA.Sum()), gen.SumBals(to.Sum()))
		rt.Assume(b.Sign() >= 0)
		to.Balances[0][1] = b
		resign()
	case 13: // parameters with another number of participants
		n := 3 // (fewer than two participants do not decode)
		parts := []map[wallet.BackendID]wallet.Address{addr(w.Peer), addr(w.Stranger), addr(w.Peer)}[:n]
		vp := *h.vparams
		vp.Parts = parts
		vp2 := channel.NewParamsUnsafe(vp.ChallengeDuration, parts, vp.App, vp.Nonce, false, true, vp.Aux)
		st := h.vstate.Clone()
		st.ID = vp2.ID()
		if rt.NondetBool() { // a third balance column as well
			st.Balances[0] = append(st.Balances[0], gen.Bal())
		}
		sigs := []wallet.Sig{cw.SignAs(w.Peer, st), cw.SignAs(w.Stranger, st), cw.SignAs(w.Peer, st)}[:n]
		m.Initial = channel.SignedState{Params: vp2, State: st, Sigs: sigs}
		to.Locked[len(to.Locked)-1].ID = vp2.ID()
		to.Locked[len(to.Locked)-1].Bals = st.Sum()
		if rt.NondetBool() { // an index map for three participants (consistently used)
			im := []channel.Index{channel.Index(rt.NondetU16()), channel.Index(rt.NondetU16()), channel.Index(rt.NondetU16())}
			m.IndexMap = im
			to.Locked[len(to.Locked)-1].IndexMap = im
		}
		// any parent balances that keep the total
		a := gen.Bal()
		to.Balances[0][0], to.Balances[0][1] = a, new(big.Int)
		b := new(big.Int).Sub(gen.SumBals(h.curA.Sum()), gen.SumBals(to.Sum()))
		rt.Assume(b.Sign() >= 0)
		to.Balances[0][1] = b
		resign()
	}
	return m
}

// fundingRef: the update is safe for the hub to countersign as funding of V.
func (h *hub) fundingRef(m *client.VirtualChannelFundingProposalMsg) bool {
	in := m.Initial
	if in.Params == nil || in.State == nil || in.Params.ID() != in.State.ID || !in.Params.VirtualChannel || len(in.State.Locked) != 0 {
		return false
	}
	if len(in.Params.Parts) != 2 || len(in.Sigs) != 2 || len(m.IndexMap) != 2 {
		return false
	}
	for i, sig := range in.Sigs {
		ok, err := channel.Verify(in.Params.Parts[i][channel.TestBackendID], in.State, sig)
		if err != nil || !ok {
			return false
		}
	}
	if channel.AssertAssetsEqual(h.curA.Assets, in.State.Assets) != nil || len(in.State.Balances) != 1 || len(in.State.Balances[0]) != 2 {
		return false
	}
	for _, q := range m.IndexMap {
		if int(q) >= 2 {
			return false
		}
	}
	// exactly V's sub-allocation is added
	to := m.State
	if len(to.Locked) != len(h.curA.Locked)+1 {
		return false
	}
	for i := range h.curA.Locked {
		if h.curA.Locked[i].Equal(&to.Locked[i]) != nil {
			return false
		}
	}
	sa := to.Locked[len(to.Locked)-1]
	if sa.ID != in.Params.ID() || len(sa.Bals) != 1 || !rt.BigEq(sa.Bals[0], gen.SumBals(in.State.Balances[0])) || len(sa.IndexMap) != 2 ||
		sa.IndexMap[0] != m.IndexMap[0] || sa.IndexMap[1] != m.IndexMap[1] {
		return false
	}
	// each parent participant is debited exactly what it holds in V
	d := transform(in.State.Balances[0], m.IndexMap)
	for q := 0; q < 2; q++ {
		if !rt.BigEq(new(big.Int).Sub(h.curA.Balances[0][q], d[q]), to.Balances[0][q]) {
			return false
		}
	}
	return true
}

type responses struct{ acc, rej int }

func (h *hub) responsesOn(id channel.ID) (r responses) {
	for _, m := range h.w.Bus.Messages() {
		switch m := m.(type) {
		case *client.ChannelUpdateAccMsg:
			if m.ChannelID == id {
				r.acc++
			}
		case *client.ChannelUpdateRejMsg:
			if m.ChannelID == id {
				r.rej++
			}
		}
	}
	return r
}

// VerifVirtualFunding: Alice sends a crafted funding proposal on chA; Bob's
// matching honest proposal arrives on chB (or never).
func VerifVirtualFunding() {
	h := newHub(false)
	dev := pickDev(NumFundingDev)
	msgA := h.craftFunding(dev)
	ref := h.fundingRef(msgA)
	uh := updateHandler()
	withB := rt.NondetBool()
	bFirst := rt.NondetBool()
	var wg sync.WaitGroup
	handle := func(from map[wallet.BackendID]wire.Address, m client.ChannelUpdateProposal) {
		wg.Add(1)
		go func() {
			defer wg.Done()
			h.w.Client.VerifHandleChannelUpdate(uh, from, m)
		}()
	}
	if withB && bFirst {
		handle(h.w.Other, h.honestFunding(false))
	}
	handle(h.w.PeerWire, msgA)
	if withB && !bFirst {
		handle(h.w.Other, h.honestFunding(false))
	}
	rt.QuiesceWait(waitCh(&wg), 10500*time.Millisecond) // (virtualFundingTimeout is 10 s)
	rt.Reach("c12.vfund")
	// C12: no lock-up, one response at most
	rt.Assert("c12.vfund.mutex-released", h.chA.VerifMachMtxFree() && h.chB.VerifMachMtxFree())
	ra, rb := h.responsesOn(h.chA.ID()), h.responsesOn(h.chB.ID())
	rt.Assert("c12.vfund.at-most-one-response", ra.acc+ra.rej <= 1 && rb.acc+rb.rej <= 1)
	// C07: countersigned only if safe
	rt.Assert("c07.vfund.countersigned-only-if-safe", rt.Implies(ra.acc > 0, ref))
	if ra.acc > 0 {
		rt.Reach("c07.vfund.accepted")
	}
	if dev == 0 && withB {
		rt.Assert("c12.vfund.honest-funding-accepted", ra.acc == 1 && rb.acc == 1)
	}
}

var _ = wire.Ping

// pickDev draws the deviation; the bound "dev" pins it (debugging and sharding).
func pickDev(n int) int {
	if d := rt.Bound("dev", -1); d >= 0 {
		return d
	}
	mask := rt.Bound("devmask", -1) // bit i set: deviation i is drawn in this tier
	var allowed []int
	for i := 0; i < n; i++ {
		if mask < 0 || mask&(1<<uint(i)) != 0 {
			allowed = append(allowed, i)
		}
	}
	return allowed[rt.Choice(len(allowed))]
}

// honestSettlement builds the settlement proposal an honest party would send
// on the parent for the final state fin of V.
func (h *hub) honestSettlement(a bool, fin *channel.State, sigs []wallet.Sig) *client.VirtualChannelSettlementProposalMsg {
	cur, peer, m := h.curB, h.w.Stranger, h.honestMap(a)
	peerIdx := 1 - h.idxB
	if a {
		cur, peer, peerIdx = h.curA, h.w.Peer, 1-h.idxA
	}
	to := cur.Clone()
	to.Version++
	d := transform(fin.Balances[0], m)
	for i := range d {
		to.Balances[0][i] = new(big.Int).Add(to.Balances[0][i], d[i])
	}
	to.Locked = nil
	return &client.VirtualChannelSettlementProposalMsg{
		ChannelUpdateMsg: client.ChannelUpdateMsg{ChannelUpdate: client.ChannelUpdate{State: to, ActorIdx: channel.Index(peerIdx)}, Sig: cw.SignAs(peer, to)},
		Final:            channel.SignedState{Params: h.vparams, State: fin, Sigs: sigs},
	}
}

// finalState: a final state of V with an arbitrary split of its funds.
func (h *hub) finalState() *channel.State {
	fin := h.vstate.Clone()
	fin.Version = 1 + uint64(rt.NondetU8())
	fin.IsFinal = true
	f0 := gen.Bal()
	f1 := new(big.Int).Sub(gen.SumBals(h.vstate.Balances[0]), f0)
	rt.Assume(f1.Sign() >= 0)
	fin.Balances = channel.Balances{{f0, f1}}
	return fin
}

// NumSettlementDev is the number of single deviations of craftSettlement.
const NumSettlementDev = 12

func (h *hub) craftSettlement(dev int, fin *channel.State) *client.VirtualChannelSettlementProposalMsg {
	w := h.w
	m := h.honestSettlement(true, fin, h.signV(fin))
	to := m.State
	resign := func() { m.Sig = cw.SignAs(w.Peer, to) }
	free := func() { // arbitrary parent balances with the right total
		a := gen.Bal()
		to.Balances[0][0], to.Balances[0][1] = a, new(big.Int)
		b := new(big.Int).Sub(gen.SumBals(h.curA.Sum()), gen.SumBals(to.Sum()))
		rt.Assume(b.Sign() >= 0)
		to.Balances[0][1] = b
		resign()
	}
	switch dev {
	case 0: // honest
	case 1: // arbitrary credits
		free()
	case 2: // the settled state is not final
		st := fin.Clone()
		st.IsFinal = false
		m.Final.State, m.Final.Sigs = st, h.signV(st)
	case 3: // more signatures than participants
		m.Final.Sigs = append(m.Final.Sigs, cw.SignAs(w.Peer, fin))
	case 4: // missing signatures
		m.Final.Sigs = m.Final.Sigs[:rt.Choice(2)]
	case 5: // a signature that does not verify (e.g. Alice signs for Bob)
		i := rt.Choice(2)
		if rt.Choice(2) == 0 {
			m.Final.Sigs[i] = make([]byte, 64)
		} else {
			m.Final.Sigs[i] = m.Final.Sigs[1-i]
		}
	case 6: // state of another channel
		st := fin.Clone()
		st.ID = gen.ID()
		m.Final.State, m.Final.Sigs = st, h.signV(st)
	case 7: // the settled state holds another total than the sub-allocation
		st := fin.Clone()
		st.Balances = channel.Balances{gen.Bals(2)}
		m.Final.State, m.Final.Sigs = st, h.signV(st)
		free()
	case 8: // sub-allocation kept
		to.Locked = h.curA.Clone().Locked
		free()
	case 9: // other assets
		st := fin.Clone()
		st.Assets = gen.Assets(1)
		m.Final.State, m.Final.Sigs = st, h.signV(st)
	case 11: // the settled state has another number of balance columns than V has participants
		st := fin.Clone()
		if rt.NondetBool() {
			st.Balances[0] = []channel.Bal{gen.SumBals(fin.Balances[0])}
		} else {
			st.Balances[0] = append(st.Balances[0], new(big.Int))
		}
		m.Final.State, m.Final.Sigs = st, h.signV(st)
		free()
	case 10: // three participants in the virtual channel
		parts := []map[wallet.BackendID]wallet.Address{addr(w.Peer), addr(w.Stranger), addr(w.Peer)}
		vp := channel.NewParamsUnsafe(h.vparams.ChallengeDuration, parts, h.vparams.App, h.vparams.Nonce, false, true, h.vparams.Aux)
		st := fin.Clone()
		st.ID = vp.ID()
		st.Balances = channel.Balances{gen.Bals(3)}
		m.Final = channel.SignedState{Params: vp, State: st, Sigs: []wallet.Sig{cw.SignAs(w.Peer, st), cw.SignAs(w.Stranger, st), cw.SignAs(w.Peer, st)}}
		free()
	}
	return m
}

// settlementRef: the update is safe for the hub to countersign as settlement of V.
func (h *hub) settlementRef(m *client.VirtualChannelSettlementProposalMsg) bool {
	f := m.Final
	if f.Params.ID() != f.State.ID || len(f.Params.Parts) != 2 || len(f.Sigs) != 2 {
		return false
	}
	for i, sig := range f.Sigs {
		ok, err := channel.Verify(f.Params.Parts[i][channel.TestBackendID], f.State, sig)
		if err != nil || !ok {
			return false
		}
	}
	if channel.AssertAssetsEqual(h.curA.Assets, f.State.Assets) != nil || len(f.State.Balances) != 1 || len(f.State.Balances[0]) != 2 {
		return false
	}
	// exactly V's sub-allocation is removed
	pos := -1
	for i, sa := range h.curA.Locked {
		if sa.ID == f.Params.ID() {
			pos = i
		}
	}
	if pos < 0 {
		return false
	}
	sa := h.curA.Locked[pos]
	if len(sa.Bals) != 1 || !rt.BigEq(sa.Bals[0], gen.SumBals(f.State.Balances[0])) {
		return false
	}
	to := m.State
	if len(to.Locked) != len(h.curA.Locked)-1 {
		return false
	}
	j := 0
	for i := range h.curA.Locked {
		if i == pos {
			continue
		}
		if h.curA.Locked[i].Equal(&to.Locked[j]) != nil {
			return false
		}
		j++
	}
	d := transform(f.State.Balances[0], sa.IndexMap)
	for q := 0; q < 2; q++ {
		if !rt.BigEq(new(big.Int).Add(h.curA.Balances[0][q], d[q]), to.Balances[0][q]) {
			return false
		}
	}
	return true
}

// VerifVirtualSettlement: Alice sends a crafted settlement proposal on chA;
// Bob's honest proposal (for the same or another final state) arrives on chB
// or never.
func VerifVirtualSettlement() {
	allocated := rt.Choice(2) == 1
	h := newHub(allocated)
	if allocated {
		peers := []map[wallet.BackendID]wire.Address{h.w.PeerWire, h.w.Other}
		_, err := h.w.Client.VerifPersistVirtualChannel(context.Background(), h.chA, peers, *h.vparams, *h.vstate, h.signV(h.vstate))
		rt.Assume(err == nil)
	}
	fin := h.finalState()
	dev := pickDev(NumSettlementDev)
	msgA := h.craftSettlement(dev, fin)
	ref := allocated && h.settlementRef(msgA)
	uh := updateHandler()
	bKind := rt.Choice(rt.Bound("bKinds", 3)) // 0: no proposal from Bob, 1: same final state, 2: another final state
	var msgB *client.VirtualChannelSettlementProposalMsg
	if bKind != 0 && allocated {
		fb := fin
		if bKind == 2 {
			fb = h.finalState()
		}
		msgB = h.honestSettlement(false, fb, h.signV(fb))
	}
	bFirst := rt.NondetBool()
	var wg sync.WaitGroup
	handle := func(from map[wallet.BackendID]wire.Address, m client.ChannelUpdateProposal) {
		wg.Add(1)
		go func() {
			defer wg.Done()
			h.w.Client.VerifHandleChannelUpdate(uh, from, m)
		}()
	}
	if msgB != nil && bFirst {
		handle(h.w.Other, msgB)
	}
	handle(h.w.PeerWire, msgA)
	if msgB != nil && !bFirst {
		handle(h.w.Other, msgB)
	}
	rt.QuiesceWait(waitCh(&wg), 10500*time.Millisecond) // (virtualSettlementTimeout is 10 s)
	rt.Reach("c12.vsettle")
	rt.Assert("c12.vsettle.mutex-released", h.chA.VerifMachMtxFree() && h.chB.VerifMachMtxFree())
	ra, rb := h.responsesOn(h.chA.ID()), h.responsesOn(h.chB.ID())
	rt.Assert("c12.vsettle.at-most-one-response", ra.acc+ra.rej <= 1 && rb.acc+rb.rej <= 1)
	rt.Assert("c07.vsettle.countersigned-only-if-safe", rt.Implies(ra.acc > 0, ref))
	if ra.acc > 0 {
		rt.Reach("c07.vsettle.accepted")
	}
	if dev == 0 && allocated && bKind == 1 {
		rt.Assert("c12.vsettle.honest-settlement-accepted", ra.acc == 1 && rb.acc == 1)
	}
}

// waitCh returns a channel that is closed when wg is done.
func waitCh(wg *sync.WaitGroup) <-chan struct{} {
	ch := make(chan struct{})
	go func() {
		wg.Wait()
		close(ch)
	}()
	return ch
}
