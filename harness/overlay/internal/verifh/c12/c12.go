// Package c12: no message from a remote peer can crash a client or lock up a
// channel.
package c12

import (
	"context"
	"time"
	"math/big"

	"perun.network/go-perun/channel"
	"perun.network/go-perun/client"
	"perun.network/go-perun/internal/verifh/cw"
	"perun.network/go-perun/internal/verifh/gen"
	rt "perun.network/go-perun/internal/verifrt"
	"perun.network/go-perun/wallet"
	"perun.network/go-perun/wire"
)

// situation: a client with one ledger channel in an arbitrary phase whose
// current state has symbolic balances (and optionally a locked sub-allocation).
type situation struct {
	w      *cw.World
	ch     *client.Channel
	params *channel.Params
	cur    *channel.State
	ownIdx int
	phase  channel.Phase
}

func newSituation() *situation {
	gen.K, gen.Exact = 1, true
	s := &situation{w: cw.New(), ownIdx: rt.Choice(2)}
	s.params = s.w.Params(s.ownIdx, 7, channel.NoApp(), false)
	s.cur = &channel.State{ID: s.params.ID(), Version: uint64(rt.NondetU8()), App: channel.NoApp(), Data: channel.NoData(),
		Allocation: channel.Allocation{Assets: gen.Assets(1), Backends: gen.Backends(1), Balances: channel.Balances{gen.Bals(2)}}}
	if rt.Choice(2) == 1 {
		s.cur.Locked = []channel.SubAlloc{{ID: gen.ID(), Bals: gen.Bals(1), IndexMap: []channel.Index{0, 1}}}
	}
	s.phase = []channel.Phase{channel.Acting, channel.Signing, channel.Final, channel.Registered, channel.Funding}[rt.Choice(rt.Bound("phases", 2))]
	s.ch = s.w.Adopt(s.params, s.ownIdx, s.phase, s.cur, nil)
	return s
}

// after: the post-condition that stands in for "honest requests still complete
// or are refused in bounded time".
func (s *situation) after(label string, maxResponses int) {
	rt.Quiesce()
	rt.Assert(label+".mutex-released", s.ch.VerifMachMtxFree())
	n := 0
	for _, m := range s.w.Bus.Messages() {
		switch m.(type) {
		case *client.ChannelUpdateAccMsg, *client.ChannelUpdateRejMsg, *client.ChannelProposalRejMsg:
			n++
		}
	}
	rt.Assert(label+".at-most-one-response", n <= maxResponses)
	ph := s.ch.VerifMachine().Phase()
	rt.Assert(label+".phase-sane", ph == s.phase || ph == channel.Acting || ph == channel.Final)
}

// updateHandler answers exactly once: accept or reject.
func updateHandler() client.UpdateHandler {
	accept := rt.NondetBool()
	return client.UpdateHandlerFunc(func(_ *channel.State, _ client.ChannelUpdate, r *client.UpdateResponder) {
		ctx, cancel := context.WithTimeout(context.Background(), 1000000000)
		defer cancel()
		if accept {
			_ = r.Accept(ctx)
		} else {
			_ = r.Reject(ctx, "no")
		}
	})
}

// craftedState: a candidate successor with one deviation from a valid payment.
func (s *situation) craftedState() *channel.State {
	to := s.cur.Clone()
	to.Version++
	switch rt.Choice(9) {
	case 0: // valid payment of an arbitrary amount (may underflow -> assume valid)
		d := gen.Bal()
		to.Balances[0][0] = new(big.Int).Add(to.Balances[0][0], d)
		to.Balances[0][1] = new(big.Int).Sub(to.Balances[0][1], d)
		rt.Assume(to.Balances[0][1].Sign() >= 0)
	case 1:
		to.Version = rt.NondetU64()
	case 2:
		to.ID = gen.ID()
	case 3: // dimensions: a balance column missing / extra
		if rt.Choice(2) == 0 {
			to.Balances[0] = to.Balances[0][:1]
		} else {
			to.Balances[0] = append(to.Balances[0], gen.Bal())
		}
	case 4: // no balances at all (protobuf can deliver this)
		to.Balances = nil
	case 5: // assets and backends of other lengths
		to.Assets, to.Backends = nil, nil
	case 6: // locked funds edited
		to.Locked = append(to.Locked, channel.SubAlloc{ID: gen.ID(), Bals: gen.Bals(rt.Choice(3)), IndexMap: gen.IndexMap(rt.Choice(3))})
	case 7:
		to.IsFinal = true
	case 8:
		to.Locked = nil
	}
	return to
}

func (s *situation) sigFor(to *channel.State) wallet.Sig {
	switch rt.Choice(4) {
	case 0:
		return s.w.Sign(1, to) // the counterparty's valid signature
	case 1:
		return s.w.Sign(1, s.cur) // replayed
	case 2:
		return make([]byte, 64)
	}
	return nil
}

func canEncode(to *channel.State) bool { return to.Valid() == nil }

// VerifC12Update: an arbitrary ChannelUpdateMsg from the counterparty.
func VerifC12Update() {
	s := newSituation()
	to := s.craftedState()
	var sig wallet.Sig
	if canEncode(to) {
		sig = s.sigFor(to)
	} else {
		sig = make([]byte, 64) // an unencodable state cannot carry a valid signature
	}
	msg := &client.ChannelUpdateMsg{ChannelUpdate: client.ChannelUpdate{State: to, ActorIdx: channel.Index(rt.NondetU16())}, Sig: sig}
	sender := s.w.PeerWire
	if rt.Choice(4) == 0 {
		sender = s.w.Other
	}
	uh := updateHandler()
	go s.w.Client.VerifHandleChannelUpdate(uh, sender, msg)
	s.after("c12.update", 1)
	rt.Reach("c12.update")
}

// VerifC12Sync: an arbitrary ChannelSyncMsg (incl. one without a state).
func VerifC12Sync() {
	s := newSituation()
	msg := &client.ChannelSyncMsg{Phase: channel.Phase(rt.NondetU8())}
	switch rt.Choice(4) {
	case 0: // empty transaction: decodable (stateSet = 0)
	case 1:
		msg.CurrentTX = channel.Transaction{State: s.cur.Clone(), Sigs: []wallet.Sig{s.w.Sign(0, s.cur), s.w.Sign(1, s.cur)}}
	case 2: // unknown channel
		st := s.cur.Clone()
		st.ID = gen.ID()
		msg.CurrentTX = channel.Transaction{State: st, Sigs: make([]wallet.Sig, 2)}
	case 3: // newer version, bad signatures
		st := s.cur.Clone()
		st.Version += 1 + uint64(rt.NondetU8())
		msg.CurrentTX = channel.Transaction{State: st, Sigs: make([]wallet.Sig, rt.Choice(4))}
	}
	// the sender's address: the channel peer, or a made-up / offline address to
	// which the reply cannot be delivered (Publish blocks until its context ends)
	from := s.w.PeerWire
	if rt.NondetBool() {
		from = s.w.Other
		s.w.Bus.Unreachable = func(a map[wallet.BackendID]wire.Address) bool { return channel.EqualWireMaps(a, s.w.Other) }
	}
	done := make(chan struct{})
	go func() {
		defer close(done)
		s.w.Client.VerifHandleSyncMsg(from, msg)
	}()
	rt.QuiesceWait(done, 10500*time.Millisecond) // (syncReplyTimeout is 10 s)
	s.after("c12.sync", 0)
	rt.Reach("c12.sync")
}

var _ = wire.Ping

// VerifC12Debug: world construction (engine self-test).
func VerifC12Debug() {
	gen.K, gen.Exact = 1, true
	w := cw.New()
	rt.Assert("dbg.client", w.Client != nil)
	parts := []map[wallet.BackendID]wallet.Address{{channel.TestBackendID: w.Own.Address()}, {channel.TestBackendID: w.Peer.Address()}}
	_, perr := channel.NewParams(60, parts, channel.NoApp(), big.NewInt(7), true, false, channel.Aux{})
	rt.Assert("dbg.params", perr == nil)
	rt.Assert("dbg.validate", channel.ValidateParameters(60, 2, channel.NoApp(), big.NewInt(7)) == nil)
	parts2 := make([]map[wallet.BackendID]wallet.Address, 2)
	own := 0
	parts2[own] = map[wallet.BackendID]wallet.Address{channel.TestBackendID: w.Own.Address()}
	parts2[1-own] = map[wallet.BackendID]wallet.Address{channel.TestBackendID: w.Peer.Address()}
	virtual := false
	_, perr2 := channel.NewParams(60, parts2, channel.NoApp(), big.NewInt(int64(7)), !virtual, virtual, channel.Aux{})
	rt.Assert("dbg.params2", perr2 == nil)
	p := w.Params(0, 7, channel.NoApp(), false)
	cur := &channel.State{ID: p.ID(), Version: 1, App: channel.NoApp(), Data: channel.NoData(),
		Allocation: channel.Allocation{Assets: gen.Assets(1), Backends: gen.Backends(1), Balances: channel.Balances{gen.Bals(2)}}}
	sigs := []wallet.Sig{w.Sign(0, cur), w.Sign(1, cur)}
	src := &gen.Source{IdxV: 0, ParamsV: p, PhaseV: channel.Acting, Current: channel.Transaction{State: cur, Sigs: sigs}}
	_, err := w.Client.VerifAdoptChannel(src, w.Peers(0), nil)
	rt.Assert("dbg.adopt", err == nil)
}
