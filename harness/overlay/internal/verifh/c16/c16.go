// Package c16: message framing does not depend on how the transport chunks
// the bytes.
package c16

import (
	"bytes"
	"io"
	"math/big"
	"time"

	_ "perun.network/go-perun/backend/sim"
	simwire "perun.network/go-perun/backend/sim/wire"
	"perun.network/go-perun/channel"
	"perun.network/go-perun/client"
	rt "perun.network/go-perun/internal/verifrt"
	"perun.network/go-perun/wallet"
	"perun.network/go-perun/wire"
	"perun.network/go-perun/wire/perunio"
	perunser "perun.network/go-perun/wire/perunio/serializer"
	"perun.network/go-perun/wire/protobuf"
)

// chunkReader delivers data in chunks on a stream that stays open: every Read
// returns between 1 and min(len(p), remaining) bytes (drawn by next) and never
// reports end-of-file. A Read with a non-empty buffer when nothing remains
// would block forever on a real connection; it is recorded in overRead.
type chunkReader struct {
	data     []byte
	pos      int
	next     func(max int) int
	overRead bool
	reads    int
}

func (c *chunkReader) Read(p []byte) (int, error) {
	c.reads++
	if len(p) == 0 {
		return 0, nil
	}
	rem := len(c.data) - c.pos
	if rem == 0 {
		c.overRead = true
		return 0, io.EOF
	}
	max := len(p)
	if rem < max {
		max = rem
	}
	n := c.next(max)
	copy(p, c.data[c.pos:c.pos+n])
	c.pos += n
	return n, nil
}

// anyChunk: every chunk size is an independent arbitrary choice (all partitions).
func anyChunk(max int) int { return 1 + rt.Choice(max) }

// VerifC16Primitives: each primitive read site obtains exactly the next bytes
// for every partition of the stream into chunks.
func VerifC16Primitives() {
	l := rt.Bound("payload", 6)
	site := rt.Choice(6)
	var enc bytes.Buffer
	var check func(r io.Reader) bool
	tail := rt.NondetBytes(2) // bytes of the next message: must stay unread
	switch site {
	case 0: // fixed-size scalars through binary.Read
		a, b, c := rt.NondetU16(), rt.NondetU32(), rt.NondetBool()
		rt.Assume(perunio.Encode(&enc, a, b, c) == nil)
		check = func(r io.Reader) bool {
			var x uint16
			var y uint32
			var z bool
			return perunio.Decode(r, &x, &y, &z) == nil && x == a && y == b && z == c
		}
	case 1: // uint64
		a := rt.NondetU64()
		rt.Assume(perunio.Encode(&enc, a) == nil)
		check = func(r io.Reader) bool { var x uint64; return perunio.Decode(r, &x) == nil && x == a }
	case 2: // [32]byte through io.ReadFull (only the first l bytes arbitrary)
		var a [32]byte
		copy(a[:], rt.NondetBytes(l))
		rt.Assume(perunio.Encode(&enc, a) == nil)
		check = func(r io.Reader) bool { var x [32]byte; return perunio.Decode(r, &x) == nil && x == a }
	case 3: // string
		s := string(rt.NondetBytes(rt.Choice(l + 1)))
		rt.Assume(perunio.Encode(&enc, s) == nil)
		check = func(r io.Reader) bool { var x string; return perunio.Decode(r, &x) == nil && x == s }
	case 4: // byte slice of known length
		b := rt.NondetBytes(rt.Choice(l + 1))
		rt.Assume(perunio.Encode(&enc, b) == nil)
		check = func(r io.Reader) bool {
			x := make([]byte, len(b))
			return perunio.Decode(r, &x) == nil && bytes.Equal(x, b)
		}
	case 5: // big integer
		v := rt.NondetBigExact(rt.Choice(l + 1))
		rt.Assume(perunio.Encode(&enc, v) == nil)
		check = func(r io.Reader) bool { var x *big.Int; return perunio.Decode(r, &x) == nil && rt.BigEq(x, v) }
	}
	n := enc.Len()
	if site == 2 {
		// the 32-byte array: all partitions of its first l+1 bytes, the rest in one piece
		n = l + 1
	}
	enc.Write(tail)
	cr := &chunkReader{data: enc.Bytes()}
	cr.next = func(max int) int {
		if cr.pos < n {
			return anyChunk(max)
		}
		return max
	}
	ok := check(cr)
	rt.Reach("c16.prim")
	rt.Assert("c16.prim.same-value", ok)
	rt.Assert("c16.prim.no-overread", !cr.overRead && cr.pos == len(cr.data)-len(tail))
}

func wireAddr(k byte) map[wallet.BackendID]wire.Address {
	var a simwire.Address
	a[0], a[31] = k, rt.NondetU8()
	return map[wallet.BackendID]wire.Address{channel.TestBackendID: &a}
}

func envelope(kind int) *wire.Envelope {
	e := &wire.Envelope{Sender: wireAddr(1), Recipient: wireAddr(2)}
	switch kind {
	case 0:
		e.Msg = &wire.PingMsg{PingPongMsg: wire.PingPongMsg{Created: time.Unix(0, int64(rt.NondetU32()))}}
	case 1:
		e.Msg = &client.ChannelUpdateAccMsg{ChannelID: channel.ID{1, rt.NondetU8()}, Version: rt.NondetU64(), Sig: make([]byte, 64)}
	case 2:
		e.Msg = &client.ChannelProposalRejMsg{ProposalID: [32]byte{rt.NondetU8()}, Reason: "no"}
	}
	return e
}

func sameEnv(a, b *wire.Envelope) bool {
	var x, y bytes.Buffer
	ser := perunser.Serializer()
	if ser.Encode(&x, a) != nil || b == nil || b.Msg == nil || ser.Encode(&y, b) != nil {
		return false
	}
	return bytes.Equal(x.Bytes(), y.Bytes())
}

// pattern returns a chunking from a bounded family: 0: everything at once;
// 1: uniform chunks of size 1..8; 2: one cut at an arbitrary position;
// 3: two cuts at c and c+d (d = 1..3); other bytes in maximal chunks.
func pattern(cr *chunkReader, total int) {
	switch rt.Choice(4) {
	case 0:
		cr.next = func(max int) int { return max }
	case 1:
		s := 1 + rt.Choice(8)
		cr.next = func(max int) int {
			if s < max {
				return s
			}
			return max
		}
	case 2:
		c := 1 + rt.Choice(total-1)
		cr.next = func(max int) int {
			if cr.pos < c && cr.pos+max > c {
				return c - cr.pos
			}
			return max
		}
	case 3:
		c := 1 + rt.Choice(total-1)
		d := 1 + rt.Choice(3)
		cr.next = func(max int) int {
			for _, cut := range []int{c, c + d} {
				if cr.pos < cut && cr.pos+max > cut {
					return cut - cr.pos
				}
			}
			return max
		}
	}
}

// VerifC16Native: two consecutive envelopes through the perunio envelope
// serializer decode identically under every chunking of the bounded family.
func VerifC16Native() {
	ser := perunser.Serializer()
	e1, e2 := envelope(rt.Choice(rt.Bound("envKinds", 2))), envelope(0)
	var buf bytes.Buffer
	rt.Assume(ser.Encode(&buf, e1) == nil && ser.Encode(&buf, e2) == nil)
	cr := &chunkReader{data: buf.Bytes()}
	pattern(cr, buf.Len())
	d1, err1 := ser.Decode(cr)
	d2, err2 := ser.Decode(cr)
	rt.Reach("c16.native")
	rt.Assert("c16.native.dec-ok", err1 == nil && err2 == nil)
	rt.Assert("c16.native.same", sameEnv(e1, d1) && sameEnv(e2, d2))
	rt.Assert("c16.native.no-overread", !cr.overRead && cr.pos == len(cr.data))
}

// VerifC16Protobuf: the same through the protobuf envelope serializer
// (length-prefixed frame; proto.Marshal/Unmarshal outside the claim).
func VerifC16Protobuf() {
	ser := protobuf.Serializer()
	e1, e2 := envelope(rt.Choice(rt.Bound("envKinds", 2))), envelope(0)
	var buf bytes.Buffer
	rt.Assume(ser.Encode(&buf, e1) == nil && ser.Encode(&buf, e2) == nil)
	cr := &chunkReader{data: buf.Bytes()}
	if rt.Choice(2) == 1 {
		// every partition of the first frame and of the second frame's length prefix
		first := rt.Bound("firstFrame", 12)
		cr.next = func(max int) int {
			if cr.pos < first {
				return anyChunk(max)
			}
			return max
		}
	} else {
		pattern(cr, buf.Len())
	}
	d1, err1 := ser.Decode(cr)
	d2, err2 := ser.Decode(cr)
	rt.Reach("c16.pb")
	rt.Assert("c16.pb.dec-ok", err1 == nil && err2 == nil)
	rt.Assert("c16.pb.same", sameEnv(e1, d1) && sameEnv(e2, d2))
	rt.Assert("c16.pb.no-overread", !cr.overRead && cr.pos == len(cr.data))
}

// VerifC16Long: long fields delivered in very many small chunks: a byte slice,
// a string and a big integer of len bytes (symbolic content) read through
// uniform chunks of 1, 2 or 3 bytes - several hundred reads per field.
func VerifC16Long() {
	n := []int{101, 130, 255}[rt.Choice(3)]
	chunk := 1 + rt.Choice(3)
	site := rt.Choice(3)
	payload := rt.NondetBytes(8)
	mk := func(l int) []byte { // l bytes: zeros with 8 arbitrary bytes at the end
		b := make([]byte, l)
		copy(b[l-8:], payload)
		return b
	}
	var enc bytes.Buffer
	var check func(r io.Reader) bool
	switch site {
	case 0:
		b := mk(n)
		rt.Assume(perunio.Encode(&enc, b) == nil)
		check = func(r io.Reader) bool {
			x := make([]byte, len(b))
			return perunio.Decode(r, &x) == nil && bytes.Equal(x, b)
		}
	case 1:
		s := string(mk(n))
		rt.Assume(perunio.Encode(&enc, s) == nil)
		check = func(r io.Reader) bool { var x string; return perunio.Decode(r, &x) == nil && x == s }
	case 2:
		l := 40 // (the engine bounds symbolic big integers to 40 bytes)
		b := mk(l)
		b[0] = 1
		v := new(big.Int).SetBytes(b)
		rt.Assume(perunio.Encode(&enc, v) == nil)
		check = func(r io.Reader) bool { var x *big.Int; return perunio.Decode(r, &x) == nil && rt.BigEq(x, v) }
	}
	tail := []byte{0xaa, 0xbb}
	enc.Write(tail)
	cr := &chunkReader{data: enc.Bytes()}
	cr.next = func(max int) int {
		if chunk < max {
			return chunk
		}
		return max
	}
	ok := check(cr)
	rt.Reach("c16.long")
	rt.Assert("c16.long.same-value", ok)
	rt.Assert("c16.long.no-overread", !cr.overRead && cr.pos == len(cr.data)-len(tail))
}
