// Package c10: what is restored after a crash is exactly a state the channel
// machine was in.
package c10

import (
	"context"

	simwire "perun.network/go-perun/backend/sim/wire"
	"perun.network/go-perun/channel"
	"perun.network/go-perun/channel/persistence"
	"perun.network/go-perun/channel/persistence/keyvalue"
	"perun.network/go-perun/internal/verifh/gen"
	"perun.network/go-perun/internal/verifh/mach"
	"perun.network/go-perun/internal/verifh/snap"
	rt "perun.network/go-perun/internal/verifrt"
	"perun.network/go-perun/wallet"
	"perun.network/go-perun/wire"
)

func peerList() []map[wallet.BackendID]wire.Address {
	var a, b simwire.Address
	a[0], b[0] = 0xA1, 0xB2
	return []map[wallet.BackendID]wire.Address{{channel.TestBackendID: &a}, {channel.TestBackendID: &b}}
}

func samePeers(x, y []map[wallet.BackendID]wire.Address) bool {
	if len(x) != len(y) {
		return false
	}
	ok := true
	for i := range x {
		p, q := x[i][channel.TestBackendID], y[i][channel.TestBackendID]
		if p == nil || q == nil || len(x[i]) != len(y[i]) {
			return false
		}
		ok = rt.And(ok, p.Equal(q))
	}
	return ok
}

func sameParent(x, y *channel.ID) bool {
	if x == nil || y == nil {
		return x == nil && y == nil
	}
	return *x == *y
}

// apply performs the operation through the persisting machine.
func apply(ctx context.Context, m *persistence.StateMachine, a *mach.Args) (err error) {
	switch a.Op {
	case mach.OpInit:
		err = m.Init(ctx, a.Alloc, channel.NoData())
	case mach.OpUpdate:
		err = m.Update(ctx, a.State, a.Actor)
	case mach.OpForceUpdate:
		err = m.ForceUpdate(ctx, a.State, a.Actor)
	case mach.OpCheckUpdate:
		err = m.CheckUpdate(a.State, a.Actor, a.Sig, channel.Index(a.SigIdx))
	case mach.OpSig:
		_, err = m.Sig(ctx)
	case mach.OpAddSig:
		err = m.AddSig(ctx, channel.Index(a.SigIdx), a.Sig)
	case mach.OpDiscard:
		err = m.DiscardUpdate(ctx)
	case mach.OpEnableInit:
		err = m.EnableInit(ctx)
	case mach.OpEnableUpdate:
		err = m.EnableUpdate(ctx)
	case mach.OpEnableFinal:
		err = m.EnableFinal(ctx)
	case mach.OpSetFunded:
		err = m.SetFunded(ctx)
	case mach.OpSetRegistering:
		err = m.SetRegistering(ctx)
	case mach.OpSetRegistered:
		err = m.SetRegistered(ctx)
	case mach.OpSetProgressing:
		err = m.SetProgressing(ctx, a.State)
	case mach.OpSetProgressed:
		err = m.SetProgressed(ctx, &channel.ProgressedEvent{State: a.State})
	case mach.OpSetWithdrawing:
		err = m.SetWithdrawing(ctx)
	case mach.OpSetWithdrawn:
		err = m.SetWithdrawn(ctx)
	}
	return
}

// VerifC10Step: from a consistent (machine, store) pair, one operation with an
// arbitrary crash point; what is restored is the machine before or after.
func VerifC10Step() {
	gen.K, gen.Exact = 1, true
	ctx := context.Background()
	w := mach.NewWorld(2, rt.Choice(rt.Bound("owns", 1)))
	sm, pre := mach.ArbitraryMachine(w)
	db := NewCrashDB()
	pr := keyvalue.NewPersistRestorer(db)
	peers := peerList()
	var parent *channel.ID
	if rt.Choice(rt.Bound("parents", 2)) == 1 {
		id := gen.ID()
		parent = &id
	}
	rt.Assume(pr.ChannelCreated(ctx, sm, peers, parent) == nil)
	a := mach.DrawArgs(w, sm, pre)
	if a.Op == mach.OpForceUpdate || a.Op == mach.OpUpdate || a.Op == mach.OpCheckUpdate {
		rt.Assume(pre.Current.State != nil)
	}
	before := snap.OfSource(sm)
	pm := persistence.FromStateMachine(sm, pr)
	// crash point: before write event c of this operation (c = maxEvents: no crash)
	maxEvents := 2
	c := rt.Choice(maxEvents + 1)
	db.Events = 0
	if c < maxEvents {
		db.CrashAt = c
	}
	rt.Observe("op", a.Op, int(pre.Phase), a.SigIdx, a.SigKind, c)
	panicked := rt.Try(func() { _ = apply(ctx, &pm, a) })
	rt.Observe("events", db.Events, int(sm.Phase()))
	rt.Assert("c10.step.nopanic", !panicked)
	crashed := db.CrashAt >= 0 && db.Events > db.CrashAt
	after := snap.OfSource(sm)
	// restart
	db.CrashAt = -1
	ch, err := pr.RestoreChannel(ctx, w.Params.ID())
	rt.Reach("c10.step")
	if a.Op == mach.OpSetWithdrawn && err != nil {
		// the data of a settled channel is discarded: absent is acceptable once
		// the operation reached the store
		rt.Assert("c10.step.removed-only-if-withdrawn", sm.Phase() == channel.Withdrawn)
		return
	}
	rt.Assert("c10.step.restorable", err == nil && ch != nil)
	if err != nil || ch == nil {
		return
	}
	isBefore := rt.And(before.Same(ch), rt.And(samePeers(peers, ch.PeersV), sameParent(parent, ch.Parent)))
	isAfter := rt.And(after.Same(ch), rt.And(samePeers(peers, ch.PeersV), sameParent(parent, ch.Parent)))
	rt.Assert("c10.step.before-or-after", rt.Or(isBefore, isAfter))
	if !crashed {
		rt.Reach("c10.step.completed")
		rt.Assert("c10.step.after-if-completed", isAfter)
		// the store is again exactly the dump of the machine
		db2 := NewCrashDB()
		rt.Assume(keyvalue.NewPersistRestorer(db2).ChannelCreated(ctx, sm, peers, parent) == nil)
		k1, v1 := db.Dump()
		k2, v2 := db2.Dump()
		same := len(k1) == len(k2)
		for i := 0; same && i < len(k1); i++ {
			same = k1[i] == k2[i] && rt.Iff(v1[i] == v2[i], true)
		}
		rt.Assert("c10.step.store-is-dump", same)
	}
	// a machine can be rebuilt from what was restored
	_, rerr := channel.RestoreStateMachine(w.OwnAcc(), ch)
	rt.Assert("c10.step.machine-restorable", rerr == nil)
}

// VerifC10Width: the staged signatures of channels with 3, 10 and 11
// participants (signature key width arithmetic) are restored in their slots.
func VerifC10Width() {
	gen.K, gen.Exact = 1, true
	ctx := context.Background()
	n := []int{3, 10, 11}[rt.Choice(3)]
	w := mach.NewWorld(n, 0)
	stg := w.State()
	sigs := make([]wallet.Sig, n)
	i, j := rt.Choice(n), rt.Choice(n)
	sigs[i], sigs[j] = w.Sign(i, stg), w.Sign(j, stg)
	src := &gen.Source{ParamsV: w.Params, PhaseV: channel.InitSigning, Staging: channel.Transaction{State: stg, Sigs: sigs}}
	sm, err := channel.RestoreStateMachine(w.OwnAcc(), src)
	rt.Assume(err == nil)
	db := NewCrashDB()
	pr := keyvalue.NewPersistRestorer(db)
	rt.Assume(pr.ChannelCreated(ctx, sm, peerList(), nil) == nil)
	// a signature persisted on its own (SigAdded builds its key separately)
	rt.Assume(pr.SigAdded(ctx, sm, channel.Index(i)) == nil)
	ch, err := pr.RestoreChannel(ctx, w.Params.ID())
	rt.Reach("c10.width")
	rt.Assert("c10.width.restorable", err == nil && ch != nil)
	if err == nil && ch != nil {
		rt.Assert("c10.width.same", snap.OfSource(sm).Same(ch))
	}
	// removal leaves nothing behind (C11)
	rt.Assume(pr.ChannelRemoved(ctx, w.Params.ID()) == nil)
	it := db.NewIterator()
	left := 0
	for it.Next() {
		left++
	}
	_ = it.Close()
	rt.Assert("c11.width.no-residue", left == 0)
}
