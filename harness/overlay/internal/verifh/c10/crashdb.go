package c10

import (
	"polycry.pt/poly-go/sortedkv"
	"polycry.pt/poly-go/sortedkv/memorydb"
)

// CrashDB wraps the in-memory store, counts write events (a single Put/Delete
// outside a batch, or one Batch.Apply) and silently drops every write event
// whose number is >= CrashAt (the process stopped before it reached the store).
type CrashDB struct {
	sortedkv.Database
	Events  int
	CrashAt int // -1: never
}

// NewCrashDB returns an empty store that never crashes.
func NewCrashDB() *CrashDB { return &CrashDB{Database: memorydb.NewDatabase(), CrashAt: -1} }

func (d *CrashDB) event() bool {
	n := d.Events
	d.Events++
	return d.CrashAt < 0 || n < d.CrashAt
}

// Put implements sortedkv.Writer.
func (d *CrashDB) Put(k, v string) error {
	if d.event() {
		return d.Database.Put(k, v)
	}
	return nil
}

// PutBytes implements sortedkv.Writer.
func (d *CrashDB) PutBytes(k string, v []byte) error {
	if d.event() {
		return d.Database.PutBytes(k, v)
	}
	return nil
}

// Delete implements sortedkv.Writer.
func (d *CrashDB) Delete(k string) error {
	if d.event() {
		return d.Database.Delete(k)
	}
	return nil
}

type crashBatch struct {
	sortedkv.Batch
	db *CrashDB
}

// NewBatch implements sortedkv.Batcher.
func (d *CrashDB) NewBatch() sortedkv.Batch { return &crashBatch{d.Database.NewBatch(), d} }

func (b *crashBatch) Apply() error {
	if b.db.event() {
		return b.Batch.Apply()
	}
	return nil
}

// Dump returns all (key, value) pairs in key order.
func (d *CrashDB) Dump() (keys, vals []string) {
	it := d.Database.NewIterator()
	for it.Next() {
		keys, vals = append(keys, it.Key()), append(vals, it.Value())
	}
	it.Close()
	return
}
