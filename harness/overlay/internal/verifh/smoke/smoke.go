// Package smoke holds engine self-tests.
package smoke

import (
	"bytes"
	"math/big"

	"github.com/pkg/errors"
	psync "polycry.pt/poly-go/sync"
	"sync"
	"context"
	"time"
	"polycry.pt/poly-go/sortedkv"
	"polycry.pt/poly-go/sortedkv/memorydb"

	rt "perun.network/go-perun/internal/verifrt"
	"perun.network/go-perun/wire/perunio"
)

// VerifSmokeArith: basic arithmetic facts.
func VerifSmokeArith() {
	x := rt.NondetU32()
	y := rt.NondetU32()
	rt.Assume(x < 1000 && y < 1000)
	rt.Reach("smoke.arith")
	rt.Assert("smoke.arith.comm", x+y == y+x)
	rt.Assert("smoke.arith.bound", x+y < 2000)
	s := []uint32{x, y}
	m := map[string]uint32{"a": x}
	m["b"] = y
	rt.Assert("smoke.arith.map", m["a"]+m["b"] == s[0]+s[1])
	var z uint32
	func() {
		defer func() { z = x }()
	}()
	rt.Assert("smoke.arith.defer", z == x)
}

// VerifSmokeFail: must be violated (x == 77).
func VerifSmokeFail() {
	x := rt.NondetU32()
	rt.Assert("smoke.fail", x != 77)
}

// VerifSmokePanic: index out of range for i >= 3.
func VerifSmokePanic() {
	i := rt.NondetU8()
	a := []int{1, 2, 3}
	p := rt.Try(func() { _ = a[i] })
	rt.Assert("smoke.panic.iff", p == (i >= 3))
}

// VerifSmokeBig: big integer arithmetic and bytes.
func VerifSmokeBig() {
	a := rt.NondetNat()
	b := rt.NondetNat()
	s := new(big.Int).Add(a, b)
	rt.Assert("smoke.big.ge", s.Cmp(a) >= 0)
	d := new(big.Int).Sub(s, b)
	rt.Assert("smoke.big.inv", d.Cmp(a) == 0)
	c := rt.NondetBig(2)
	bs := c.Bytes()
	back := new(big.Int).SetBytes(bs)
	rt.Assert("smoke.big.bytes", back.Cmp(c) == 0)
	rt.Assert("smoke.big.len", len(bs) <= 2)
}

// VerifSmokeCodec: perunio round trip of scalars.
func VerifSmokeCodec() {
	x := rt.NondetU64()
	y := rt.NondetU16()
	b := rt.NondetBool()
	n := rt.NondetBig(2)
	var buf bytes.Buffer
	err := perunio.Encode(&buf, x, y, b, n)
	rt.Assert("smoke.codec.encok", err == nil)
	var x2 uint64
	var y2 uint16
	var b2 bool
	var n2 *big.Int
	err = perunio.Decode(&buf, &x2, &y2, &b2, &n2)
	rt.Assert("smoke.codec.decok", err == nil)
	rt.Assert("smoke.codec.rt", x == x2 && y == y2 && b == b2 && n.Cmp(n2) == 0)
	rt.Assert("smoke.codec.consumed", buf.Len() == 0)
}

// VerifSmokeErrors: pkg/errors semantics incl. WithMessage(nil).
func VerifSmokeErrors() {
	var e error
	w := errors.WithMessage(e, "x")
	rt.Assert("smoke.errors.nil", w == nil)
	e2 := errors.New("boom")
	w2 := errors.WithMessage(e2, "ctx")
	rt.Assert("smoke.errors.cause", errors.Cause(w2) == e2)
}

// VerifSmokeEmpty measures the fixed cost of a path.
func VerifSmokeEmpty() {}

// VerifSmokeBatch: map-based batch with deletes (engine self-test).
func VerifSmokeBatch() {
	db := memorydb.NewDatabase()
	t := sortedkv.NewTable(db, "T:")
	b := t.NewBatch()
	for _, k := range []string{"a", "b", "c", "d"} {
		b.Put(k, "v"+k)
	}
	rt.Assert("smoke.batch.apply", b.Apply() == nil)
	b2 := t.NewBatch()
	keys := append([]string{"a", "b"}, []string{"c", "d"}...)
	for _, k := range keys {
		rt.Assert("smoke.batch.del", b2.Delete(k) == nil)
	}
	err := b2.Apply()
	rt.Assert("smoke.batch.apply2", err == nil)
	it := db.NewIterator()
	n := 0
	for it.Next() {
		n++
	}
	rt.Assert("smoke.batch.empty", n == 0)
}

// VerifSmokeGo: goroutines, channels, select, mutex, waitgroup (engine self-test).
func VerifSmokeGo() {
	ch := make(chan int)
	done := make(chan struct{}, 1)
	var mu sync.Mutex
	var wg sync.WaitGroup
	total := 0
	for i := 1; i <= 3; i++ {
		wg.Add(1)
		go func(v int) {
			defer wg.Done()
			mu.Lock()
			total += v
			mu.Unlock()
			ch <- v
		}(i)
	}
	sum := 0
	for i := 0; i < 3; i++ {
		sum += <-ch
	}
	wg.Wait()
	rt.Assert("smoke.go.sum", sum == 6 && total == 6)
	go func() { done <- struct{}{} }()
	select {
	case <-done:
	case v := <-ch:
		rt.Assert("smoke.go.never", v < 0)
	}
	// poly-go mutex with context
	var pm psync.Mutex
	rt.Assert("smoke.go.trylock", pm.TryLock())
	rt.Assert("smoke.go.trylock2", !pm.TryLock())
	pm.Unlock()
	var once sync.Once
	n := 0
	once.Do(func() { n++ })
	once.Do(func() { n++ })
	rt.Assert("smoke.go.once", n == 1)
	rt.Reach("smoke.go")
}

// VerifSmokeCtx: context cancellation and timeouts on the virtual clock.
func VerifSmokeCtx() {
	ctx, cancel := context.WithTimeout(context.Background(), time.Second)
	defer cancel()
	rt.Assert("smoke.ctx.live", ctx.Err() == nil)
	child, ccancel := context.WithCancel(ctx)
	defer ccancel()
	got := make(chan int, 1)
	go func() {
		select {
		case <-child.Done():
			got <- 1
		case <-time.After(5 * time.Second):
			got <- 2
		}
	}()
	v := <-got
	rt.Assert("smoke.ctx.timeout-first", v == 1 && child.Err() == context.DeadlineExceeded)
	var pm psync.Mutex
	pm.Lock()
	c2, cancel2 := context.WithCancel(context.Background())
	cancel2()
	rt.Assert("smoke.ctx.trylockctx", !pm.TryLockCtx(c2))
	rt.Reach("smoke.ctx")
}
