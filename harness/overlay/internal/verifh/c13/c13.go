// Package c13: decoding arbitrary bytes never panics and enforces the limits.
package c13

import (
	"bytes"
	"encoding/binary"
	"io"
	"math/big"

	_ "perun.network/go-perun/backend/sim"
	"perun.network/go-perun/channel"
	"perun.network/go-perun/client"
	rt "perun.network/go-perun/internal/verifrt"
	"perun.network/go-perun/wallet"
	"perun.network/go-perun/wire"
	"perun.network/go-perun/wire/perunio"
	perunser "perun.network/go-perun/wire/perunio/serializer"
)

// Decoder is a named entry point that decodes from a reader.
type Decoder struct {
	Name string
	Run  func(r io.Reader) error
	// Limits checks, after a successful decode of buf, that the declared
	// counts are within the documented limits (nil: no count fields).
	Limits func(buf []byte) bool
}

func u16(b []byte, off int) int {
	if len(b) < off+2 {
		return 0
	}
	return int(binary.LittleEndian.Uint16(b[off:]))
}

// Decoders lists every value decoder of the native codec.
func Decoders() []Decoder {
	return []Decoder{
		{"BigInt", func(r io.Reader) error { var x perunio.BigInt; return x.Decode(r) },
			func(b []byte) bool { return len(b) > 0 && int(b[0]) <= perunio.MaxBigIntLength }},
		{"BigIntPtr", func(r io.Reader) error { var x *big.Int; return perunio.Decode(r, &x) }, nil},
		{"String", func(r io.Reader) error { var s string; return perunio.Decode(r, &s) }, nil},
		{"Scalars", func(r io.Reader) error {
			var a bool
			var b uint16
			var c int32
			var d uint64
			var e [32]byte
			return perunio.Decode(r, &a, &b, &c, &d, &e)
		}, nil},
		{"Balances", func(r io.Reader) error { var x channel.Balances; return x.Decode(r) },
			func(b []byte) bool { return u16(b, 0) <= channel.MaxNumAssets && u16(b, 2) <= channel.MaxNumParts }},
		{"SubAlloc", func(r io.Reader) error { var x channel.SubAlloc; return x.Decode(r) },
			func(b []byte) bool { return u16(b, 32) <= channel.MaxNumAssets }},
		{"Allocation", func(r io.Reader) error { var x channel.Allocation; return x.Decode(r) },
			func(b []byte) bool {
				return u16(b, 0) <= channel.MaxNumAssets && u16(b, 2) <= channel.MaxNumParts && u16(b, 4) <= channel.MaxNumSubAllocations
			}},
		{"State", func(r io.Reader) error { var x channel.State; return x.Decode(r) }, nil},
		{"Params", func(r io.Reader) error { var x channel.Params; return x.Decode(r) }, nil},
		{"Transaction", func(r io.Reader) error { var x channel.Transaction; return x.Decode(r) }, nil},
		{"WalletAddrMap", func(r io.Reader) error { var x wallet.AddressDecMap; return x.Decode(r) }, nil},
		{"WalletAddrMapArray", func(r io.Reader) error { var x wallet.AddressMapArray; return x.Decode(r) }, nil},
		{"WireAddrMap", func(r io.Reader) error { var x wire.AddressDecMap; return x.Decode(r) }, nil},
		{"WireAddrMapArray", func(r io.Reader) error { var x wire.AddressMapArray; return x.Decode(r) }, nil},
		{"Sig", func(r io.Reader) error { _, err := wallet.DecodeSig(r); return err }, nil},
		{"SparseSigs", func(r io.Reader) error {
			sigs := make([]wallet.Sig, rt.Choice(4))
			return wallet.DecodeSparseSigs(r, &sigs)
		}, nil},
		{"OptApp", func(r io.Reader) error { var a channel.App; return channel.OptAppDec{App: &a}.Decode(r) }, nil},
		{"OptAppAndData", func(r io.Reader) error {
			var a channel.App
			var d channel.Data
			return channel.OptAppAndDataDec{App: &a, Data: &d}.Decode(r)
		}, nil},
		{"Msg", func(r io.Reader) error { _, err := wire.DecodeMsg(r); return err }, nil},
		{"Envelope", func(r io.Reader) error { _, err := perunser.Serializer().Decode(r); return err }, nil},
	}
}

// allocBound: no decoder may allocate more elements than a 16-bit length
// field can declare before it has read them.
const allocBound = 1 << 16

func check(label string, d Decoder, buf []byte) {
	var err error
	panicked := rt.Try(func() { err = d.Run(bytes.NewReader(buf)) })
	rt.Assert(label+".nopanic."+d.Name, !panicked)
	if !panicked && err == nil && d.Limits != nil {
		rt.Assert(label+".limits."+d.Name, d.Limits(buf))
	}
	rt.Assert(label+".alloc-bounded."+d.Name, rt.MaxMakeAt(unboundedSites, false) <= allocBound)
	// known finding F2b: these decoders pass an attacker-declared 32-bit length
	// to make before reading a single element
	rt.Known("F2b", true)
	rt.Assert(label+".alloc-bounded-addr."+d.Name, rt.MaxMakeAt(unboundedSites, true) <= allocBound)
}

const unboundedSites = "AddressDecMap).Decode|AddressMapArray).Decode|AuthResponseMsg).Decode"

// VerifC13Buffer: every decoder on a fully symbolic buffer of every length 0..L.
func VerifC13Buffer() {
	ds := Decoders()
	var d Decoder
	if only := rt.Bound("only", -1); only >= 0 {
		d = ds[only]
	} else {
		d = ds[rt.Choice(len(ds))]
	}
	l := rt.Choice(rt.Bound("L", 8) + 1)
	buf := rt.NondetBytes(l)
	check("c13.buf", d, buf)
	rt.Reach("c13.buf")
}

var _ = client.ChannelUpdateMsg{}

// ---- window model: a valid encoding with W arbitrary bytes at offset o

// Template is a valid encoding of a representative value (built on demand)
// together with the decoder that reads it.
type Template struct {
	Name string
	Dec  string
	Enc  func(w io.Writer) error
}

// Templates lists the templates of the window model.
func Templates() []Template {
	var out []Template
	out = append(out,
		Template{"State", "State", func(w io.Writer) error { return templateState().Encode(w) }},
		Template{"Params", "Params", func(w io.Writer) error { return templateParams().Encode(w) }},
		Template{"Transaction", "Transaction", func(w io.Writer) error {
			return channel.Transaction{State: templateState(), Sigs: []wallet.Sig{make([]byte, 64), nil}}.Encode(w)
		}},
		Template{"Envelope", "Envelope", func(w io.Writer) error {
			env := &wire.Envelope{Sender: templateWire(1), Recipient: templateWire(2), Msg: wire.NewPingMsg()}
			return perunser.Serializer().Encode(w, env)
		}},
	)
	for i := 0; i < NumTemplateMsgs; i++ {
		i := i
		out = append(out, Template{"Msg." + templateMsgName(i), "Msg", func(w io.Writer) error {
			return wire.EncodeMsg(templateMsg(i), w)
		}})
	}
	return out
}

// VerifC13Window: bytes [o, o+W) of a valid encoding are arbitrary, and the
// encoding is truncated at an arbitrary later point or not at all.
func VerifC13Window() {
	ts := Templates()
	var ti int
	if only := rt.Bound("onlyT", -1); only >= 0 {
		ti = only
	} else if rt.Bound("allTemplates", 0) == 1 {
		ti = rt.Choice(len(ts))
	} else {
		// quick tier: State, Params, Envelope, AuthResponse, LedgerChannelProposalAcc, ChannelUpdateAcc
		sel := []int{0, 1, 3, 6, 8, 15}
		ti = sel[rt.Choice(len(sel))]
	}
	t := ts[ti]
	var dec Decoder
	for _, d := range Decoders() {
		if d.Name == t.Dec {
			dec = d
		}
	}
	var tb bytes.Buffer
	if err := t.Enc(&tb); err != nil {
		panic("template " + t.Name + ": " + err.Error())
	}
	enc := tb.Bytes()
	w := rt.Bound("W", 4)
	stride := rt.Bound("stride", 4)
	nOff := (len(enc) + stride - 1) / stride
	var o int
	if only := rt.Bound("onlyO", -1); only >= 0 {
		o = only * stride
	} else {
		o = rt.Choice(nOff) * stride
	}
	buf := append([]byte(nil), enc...)
	for i := o; i < o+w && i < len(buf); i++ {
		buf[i] = rt.NondetU8()
	}
	if rt.Choice(2) == 1 { // truncate somewhere inside or right after the window
		cut := o + rt.Choice(w+2)
		if cut < len(buf) {
			buf = buf[:cut]
		}
	}
	check("c13.win."+t.Name, dec, buf)
	rt.Reach("c13.win")
}

// VerifC13SparseSigs: the sparse signature decoder with the whole payload
// present: n slots (0..maxSlots), an arbitrary mask (including set padding
// bits), and enough arbitrary bytes for every signature the mask can announce.
func VerifC13SparseSigs() {
	n := rt.Choice(rt.Bound("maxSlots", 9) + 1)
	maskLen := (n + 7) / 8
	buf := rt.NondetBytes(maskLen + 64*(8*maskLen) + 2)
	d := Decoder{Name: "SparseSigsFull", Run: func(r io.Reader) error {
		sigs := make([]wallet.Sig, n)
		err := wallet.DecodeSparseSigs(r, &sigs)
		if err == nil {
			rt.Assert("c13.sparse.length-kept", len(sigs) == n)
			for i, s := range sigs {
				set := buf[i/8]&(1<<(uint(i)%8)) != 0
				rt.Assert("c13.sparse.slot-iff-bit", (s != nil) == set)
			}
		}
		return err
	}}
	check("c13.sparse", d, buf)
	rt.Reach("c13.sparse")
}

// VerifC13Zeros: every decoder on buffers of length 0..maxLen that are zero
// except for 3 arbitrary bytes at an arbitrary offset (inputs longer than the
// fully symbolic buffers of VerifC13Buffer: zero counts, zero dimensions and
// zero lengths deep inside composite values).
func VerifC13Zeros() {
	ds := Decoders()
	d := ds[rt.Choice(len(ds))]
	l := rt.Choice(rt.Bound("maxLen", 24) + 1)
	buf := make([]byte, l)
	if l >= 3 {
		o := rt.Choice(l - 2)
		copy(buf[o:], rt.NondetBytes(3))
	}
	check("c13.zeros", d, buf)
	rt.Reach("c13.zeros")
}

// VerifC13BigIntLong: the big integer decoder with a declared length around
// and above the documented limit and the whole payload present (leading zero
// bytes, arbitrary low bytes): lengths above the limit are refused whatever
// the value is.
func VerifC13BigIntLong() {
	l := []int{0, 1, 127, 128, 129, 130, 200, 255}[rt.Choice(8)]
	buf := make([]byte, 1+l+2)
	buf[0] = byte(l)
	low := rt.NondetBytes(4)
	if l >= 4 {
		copy(buf[1+l-4:], low)
	}
	if l >= 5 && rt.NondetBool() {
		buf[1] = 1 + rt.NondetU8()/2 // or a non-zero leading byte
	}
	var v *big.Int
	var err error
	r := bytes.NewReader(buf)
	panicked := rt.Try(func() { err = perunio.Decode(r, &v) })
	rt.Reach("c13.bigint-long")
	rt.Assert("c13.bigint-long.nopanic", !panicked)
	rt.Assert("c13.bigint-long.limit", panicked || (err == nil) == (l <= perunio.MaxBigIntLength))
	if !panicked && err == nil {
		rt.Assert("c13.bigint-long.consumed", r.Len() == 2)
	}
}

// VerifC13DimsLong: the dimension limits with the whole payload present. The
// symbolic buffers of VerifC13Buffer are too short for a decoder to succeed
// with a dimension near its limit, so a limit test that is wrong for one
// dimension only (1 x 1025) ends in EOF there. Here the declared elements
// are all in the stream (zero-length big integers), one dimension is at or
// just above its limit, and the decoder must succeed exactly within the limits.
func VerifC13DimsLong() {
	put := func(b []byte, off, v int) { binary.LittleEndian.PutUint16(b[off:], uint16(v)) }
	var err error
	var within bool
	var panicked bool
	var rest int
	switch rt.Choice(2) {
	case 0: // Balances: assets x parts
		dims := [][2]int{{1, channel.MaxNumParts}, {1, channel.MaxNumParts + 1}, {channel.MaxNumAssets, 1}, {channel.MaxNumAssets + 1, 1}, {0, channel.MaxNumParts + 1}, {channel.MaxNumAssets + 1, 0}}[rt.Choice(6)]
		buf := make([]byte, 4+dims[0]*dims[1]+2)
		put(buf, 0, dims[0])
		put(buf, 2, dims[1])
		within = dims[0] <= channel.MaxNumAssets && dims[1] <= channel.MaxNumParts
		r := bytes.NewReader(buf)
		panicked = rt.Try(func() { var x channel.Balances; err = x.Decode(r) })
		rest = r.Len()
		rt.Assert("c13.dims.balances.accepts-within", panicked || !within || err == nil)
	case 1: // SubAlloc: number of balances
		n := []int{channel.MaxNumAssets, channel.MaxNumAssets + 1}[rt.Choice(2)]
		buf := make([]byte, 32+2+n+2+2)
		put(buf, 32, n)
		within = n <= channel.MaxNumAssets
		r := bytes.NewReader(buf)
		panicked = rt.Try(func() { var x channel.SubAlloc; err = x.Decode(r) })
		rest = r.Len()
	}
	rt.Reach("c13.dims")
	rt.Assert("c13.dims.nopanic", !panicked)
	rt.Assert("c13.dims.limit", panicked || err != nil || within)
	if !panicked && err == nil {
		rt.Assert("c13.dims.consumed", rest == 2)
	}
}
