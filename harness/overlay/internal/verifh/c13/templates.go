package c13

import (
	"math/big"
	"time"

	simchannel "perun.network/go-perun/backend/sim/channel"
	simwallet "perun.network/go-perun/backend/sim/wallet"
	simwire "perun.network/go-perun/backend/sim/wire"
	"perun.network/go-perun/channel"
	"perun.network/go-perun/client"
	"perun.network/go-perun/wallet"
	"perun.network/go-perun/wire"
)

func templateAddr(k int64) map[wallet.BackendID]wallet.Address {
	return map[wallet.BackendID]wallet.Address{channel.TestBackendID: &simwallet.Address{X: big.NewInt(1000 + k), Y: big.NewInt(2000 + k)}}
}

func templateWire(k byte) map[wallet.BackendID]wire.Address {
	var a simwire.Address
	a[0], a[31] = k, k
	return map[wallet.BackendID]wire.Address{channel.TestBackendID: &a}
}

var templateApp = channel.NewMockApp(simchannel.AppID{Address: &simwallet.Address{X: big.NewInt(77), Y: big.NewInt(78)}})

func templateState() *channel.State {
	channel.RegisterApp(templateApp)
	op := channel.OpValid
	return &channel.State{
		ID: channel.ID{1, 2, 3}, Version: 5, App: templateApp, Data: &op,
		Allocation: channel.Allocation{
			Assets:   []channel.Asset{&simchannel.Asset{ID: 9}},
			Backends: []wallet.BackendID{channel.TestBackendID},
			Balances: channel.Balances{{big.NewInt(10), big.NewInt(300)}},
			Locked:   []channel.SubAlloc{{ID: channel.ID{7}, Bals: []channel.Bal{big.NewInt(4)}, IndexMap: []channel.Index{0, 1}}},
		},
	}
}

func templateParams() *channel.Params {
	p, err := channel.NewParams(60, []map[wallet.BackendID]wallet.Address{templateAddr(1), templateAddr(2)}, channel.NoApp(), big.NewInt(12345), true, false, channel.Aux{})
	if err != nil {
		panic(err)
	}
	return p
}

// NumTemplateMsgs is the number of message templates.
const NumTemplateMsgs = 14

var templateMsgNames = []string{"Ping", "Shutdown", "AuthResponse", "LedgerChannelProposal", "LedgerChannelProposalAcc",
	"SubChannelProposal", "VirtualChannelProposal", "ChannelProposalRej", "ChannelUpdate", "VirtualChannelFundingProposal",
	"VirtualChannelSettlementProposal", "ChannelUpdateAcc", "ChannelUpdateRej", "ChannelSync"}

func templateMsgName(i int) string { return templateMsgNames[i] }

func templateMsg(i int) wire.Msg {
	al := channel.Allocation{
		Assets: []channel.Asset{&simchannel.Asset{ID: 9}}, Backends: []wallet.BackendID{channel.TestBackendID},
		Balances: channel.Balances{{big.NewInt(10), big.NewInt(20)}},
	}
	base := client.BaseChannelProposal{ProposalID: [32]byte{1}, ChallengeDuration: 10, NonceShare: [32]byte{2},
		App: channel.NoApp(), InitData: channel.NoData(), InitBals: &al, FundingAgreement: al.Balances}
	peers := func() []map[wallet.BackendID]wire.Address {
		return []map[wallet.BackendID]wire.Address{templateWire(1), templateWire(2)}
	}
	sig := make([]byte, 64)
	upd := func() client.ChannelUpdateMsg {
		return client.ChannelUpdateMsg{ChannelUpdate: client.ChannelUpdate{State: templateState(), ActorIdx: 1}, Sig: sig}
	}
	signed := func() channel.SignedState {
		pr := templateParams()
		plain := &channel.State{ID: pr.ID(), Version: 0, App: channel.NoApp(), Data: channel.NoData(),
			Allocation: channel.Allocation{Assets: al.Assets, Backends: al.Backends, Balances: al.Balances}}
		return channel.SignedState{Params: pr, State: plain, Sigs: []wallet.Sig{sig, nil}}
	}
	switch i {
	case 0:
		return &wire.PingMsg{PingPongMsg: wire.PingPongMsg{Created: time.Unix(0, 12345)}}
	case 1:
		return &wire.ShutdownMsg{Reason: "bye"}
	case 2:
		return &wire.AuthResponseMsg{Signature: []byte("Authenticate")}
	case 3:
		return &client.LedgerChannelProposalMsg{BaseChannelProposal: base, Participant: templateAddr(1), Peers: peers()}
	case 4:
		return &client.LedgerChannelProposalAccMsg{BaseChannelProposalAcc: client.BaseChannelProposalAcc{ProposalID: [32]byte{1}, NonceShare: [32]byte{3}}, Participant: templateAddr(2)}
	case 5:
		return &client.SubChannelProposalMsg{BaseChannelProposal: base, Parent: channel.ID{4}}
	case 6:
		return &client.VirtualChannelProposalMsg{BaseChannelProposal: base, Proposer: templateAddr(1), Peers: peers(),
			Parents: []channel.ID{{5}, {6}}, IndexMaps: [][]channel.Index{{0, 1}, {1, 0}}}
	case 7:
		return &client.ChannelProposalRejMsg{ProposalID: [32]byte{1}, Reason: "no"}
	case 8:
		u := upd()
		return &u
	case 9:
		return &client.VirtualChannelFundingProposalMsg{ChannelUpdateMsg: upd(), Initial: signed(), IndexMap: []channel.Index{0, 1}}
	case 10:
		return &client.VirtualChannelSettlementProposalMsg{ChannelUpdateMsg: upd(), Final: signed()}
	case 11:
		return &client.ChannelUpdateAccMsg{ChannelID: channel.ID{1}, Version: 6, Sig: sig}
	case 12:
		return &client.ChannelUpdateRejMsg{ChannelID: channel.ID{1}, Version: 6, Reason: "no"}
	}
	return &client.ChannelSyncMsg{Phase: channel.Acting, CurrentTX: channel.Transaction{State: templateState(), Sigs: []wallet.Sig{sig, sig}}}
}
