package c13

import (
	"bytes"
	"encoding/binary"

	rt "perun.network/go-perun/internal/verifrt"
	"perun.network/go-perun/wire/protobuf"
	"google.golang.org/protobuf/proto"
)

// One deviation per message: every generator site produces the well-formed
// shape except the site number devAt, which produces one of its anomalies
// (nil sub-message, wrong length, wrong count).
var (
	devAt = -1
	site  = 0
)

func dev() bool {
	site++
	return site-1 == devAt
}

// byteField: n arbitrary bytes; at the deviation site absent, one byte, or
// one byte too many.
func byteField(n int) []byte {
	if dev() {
		switch rt.Choice(3) {
		case 0:
			return nil
		case 1:
			return rt.NondetBytes(1)
		}
		return rt.NondetBytes(n + 1)
	}
	return fixed(n)
}

// fixed: n concrete bytes (content is symbolic only at the deviation site;
// the byte-level decoders are covered by the buffer and window models).
func fixed(n int) []byte {
	b := make([]byte, n)
	for i := range b {
		b[i] = byte(i%7 + 1)
	}
	return b
}

func exact(n int) []byte { return fixed(n) }

// count: the well-formed count n; at the deviation site one less or one more.
func count(n int) int {
	if dev() {
		if rt.Choice(2) == 0 && n > 0 {
			return n - 1
		}
		return n + 1
	}
	return n
}

func pbBalance(n int) *protobuf.Balance {
	if dev() {
		return nil
	}
	b := &protobuf.Balance{}
	for i, k := 0, count(n); i < k; i++ {
		b.Balance = append(b.Balance, fixed(1))
	}
	return b
}

func pbBalances(a, n int) *protobuf.Balances {
	if dev() {
		return nil
	}
	bs := &protobuf.Balances{}
	for i, k := 0, count(a); i < k; i++ {
		bs.Balances = append(bs.Balances, pbBalance(n))
	}
	return bs
}

func pbIndexMap(n int) *protobuf.IndexMap {
	if dev() {
		return nil
	}
	m := &protobuf.IndexMap{}
	for i, k := 0, count(n); i < k; i++ {
		m.IndexMap = append(m.IndexMap, rt.NondetU32())
	}
	return m
}

func pbSubAlloc() *protobuf.SubAlloc {
	if dev() {
		return nil
	}
	return &protobuf.SubAlloc{Id: byteField(32), Bals: pbBalance(1), IndexMap: pbIndexMap(2)}
}

// unknownBackend: some 4-byte backend key of the message is not the id of a
// registered backend (class of known finding F3pb).
var unknownBackend = false

func backendKey() []byte {
	k := byteField(4)
	if len(k) == 4 {
		if !dev() {
			k[0], k[1], k[2], k[3] = 0, 0, 0, 0 // the sim backend
		} else {
			k = rt.NondetBytes(4)
		}
	}
	if len(k) >= 4 { // the decoder reads the first four bytes as the id
		unknownBackend = rt.Or(unknownBackend, rt.Or(rt.Or(k[0] != 0, k[1] != 0), rt.Or(k[2] != 0, k[3] != 0)))
	}
	return k
}

func pbAllocation() *protobuf.Allocation {
	if dev() {
		return nil
	}
	a := &protobuf.Allocation{Balances: pbBalances(1, 2)}
	for i, k := 0, count(1); i < k; i++ {
		a.Backends = append(a.Backends, backendKey())
	}
	for i, k := 0, count(1); i < k; i++ {
		a.Assets = append(a.Assets, byteField(8))
	}
	for i, k := 0, count(1); i < k; i++ {
		a.Locked = append(a.Locked, pbSubAlloc())
	}
	return a
}

func pbState() *protobuf.State {
	if dev() {
		return nil
	}
	s := &protobuf.State{Id: byteField(32), Version: rt.NondetU64(), Allocation: pbAllocation(), IsFinal: rt.NondetBool()}
	if dev() { // an app definition of arbitrary bytes
		switch rt.Choice(3) {
		case 0:
			s.App = rt.NondetBytes(1)
		case 1:
			s.App = rt.NondetBytes(65)
		case 2: // a well-sized definition: coordinates with one arbitrary byte each
			s.App = make([]byte, 64)
			s.App[31], s.App[63] = rt.NondetU8(), rt.NondetU8()
		}
		s.Data = rt.NondetBytes(rt.Choice(3))
	}
	return s
}

func pbAddress() *protobuf.Address {
	if dev() {
		return nil
	}
	a := &protobuf.Address{}
	for i, k := 0, count(1); i < k; i++ {
		if dev() {
			a.AddressMapping = append(a.AddressMapping, nil)
			continue
		}
		a.AddressMapping = append(a.AddressMapping, &protobuf.AddressMapping{Key: backendKey(), Address: byteField(64)})
	}
	return a
}

func pbWireAddress() *protobuf.Address {
	if dev() {
		return nil
	}
	a := &protobuf.Address{}
	for i, k := 0, count(1); i < k; i++ {
		a.AddressMapping = append(a.AddressMapping, &protobuf.AddressMapping{Key: backendKey(), Address: byteField(32)})
	}
	return a
}

func pbParams() *protobuf.Params {
	if dev() {
		return nil
	}
	p := &protobuf.Params{Nonce: byteField(4), ChallengeDuration: rt.NondetU64(), LedgerChannel: rt.NondetBool(),
		VirtualChannel: rt.NondetBool(), Aux: byteField(256)}
	for i, k := 0, count(2); i < k; i++ {
		p.Parts = append(p.Parts, pbAddress())
	}
	return p
}

func pbSigs() [][]byte {
	var out [][]byte
	for i, k := 0, count(2); i < k; i++ {
		out = append(out, byteField(64))
	}
	return out
}

func pbUpdate() *protobuf.ChannelUpdateMsg {
	if dev() {
		return nil
	}
	u := &protobuf.ChannelUpdateMsg{Sig: byteField(64)}
	if !dev() {
		u.ChannelUpdate = &protobuf.ChannelUpdate{State: pbState(), ActorIdx: rt.NondetU32()}
	}
	return u
}

func pbSigned() *protobuf.SignedState {
	if dev() {
		return nil
	}
	return &protobuf.SignedState{Params: pbParams(), State: pbState(), Sigs: pbSigs()}
}

func pbBase() *protobuf.BaseChannelProposal {
	if dev() {
		return nil
	}
	return &protobuf.BaseChannelProposal{ProposalId: byteField(32), ChallengeDuration: rt.NondetU64(), NonceShare: byteField(32),
		InitBals: pbAllocation(), FundingAgreement: pbBalances(1, 2), Aux: byteField(256)}
}

// NumPBKinds is the number of protobuf message kinds drawn by pbEnvelope.
const NumPBKinds = 8

func pbEnvelope(kind int) *protobuf.Envelope {
	e := &protobuf.Envelope{Sender: pbWireAddress(), Recipient: pbWireAddress()}
	switch kind {
	case 0:
		e.Msg = &protobuf.Envelope_ChannelUpdateMsg{ChannelUpdateMsg: pbUpdate()}
	case 1:
		m := &protobuf.VirtualChannelFundingProposalMsg{ChannelUpdateMsg: pbUpdate(), Initial: pbSigned()}
		m.IndexMap = pbIndexMap(2)
		e.Msg = &protobuf.Envelope_VirtualChannelFundingProposalMsg{VirtualChannelFundingProposalMsg: m}
	case 2:
		e.Msg = &protobuf.Envelope_VirtualChannelSettlementProposalMsg{VirtualChannelSettlementProposalMsg: &protobuf.VirtualChannelSettlementProposalMsg{ChannelUpdateMsg: pbUpdate(), Final: pbSigned()}}
	case 3:
		m := &protobuf.LedgerChannelProposalMsg{BaseChannelProposal: pbBase(), Participant: pbAddress()}
		for i, n := 0, count(2); i < n; i++ {
			m.Peers = append(m.Peers, pbWireAddress())
		}
		e.Msg = &protobuf.Envelope_LedgerChannelProposalMsg{LedgerChannelProposalMsg: m}
	case 4:
		m := &protobuf.VirtualChannelProposalMsg{BaseChannelProposal: pbBase(), Proposer: pbAddress()}
		for i, n := 0, count(2); i < n; i++ {
			m.Peers = append(m.Peers, pbWireAddress())
		}
		for i, n := 0, count(2); i < n; i++ {
			m.Parents = append(m.Parents, byteField(32))
		}
		for i, n := 0, count(2); i < n; i++ {
			m.IndexMaps = append(m.IndexMaps, pbIndexMap(2))
		}
		e.Msg = &protobuf.Envelope_VirtualChannelProposalMsg{VirtualChannelProposalMsg: m}
	case 5:
		m := &protobuf.ChannelSyncMsg{Phase: rt.NondetU32()}
		if !dev() {
			m.CurrentTx = &protobuf.Transaction{State: pbState(), Sigs: pbSigs()}
		}
		e.Msg = &protobuf.Envelope_ChannelSyncMsg{ChannelSyncMsg: m}
	case 6:
		m := &protobuf.LedgerChannelProposalAccMsg{Participant: pbAddress()}
		if !dev() {
			m.BaseChannelProposalAcc = &protobuf.BaseChannelProposalAcc{ProposalId: byteField(32), NonceShare: byteField(32)}
		}
		e.Msg = &protobuf.Envelope_LedgerChannelProposalAccMsg{LedgerChannelProposalAccMsg: m}
	case 7:
		m := &protobuf.SubChannelProposalMsg{BaseChannelProposal: pbBase(), Parent: byteField(32)}
		e.Msg = &protobuf.Envelope_SubChannelProposalMsg{SubChannelProposalMsg: m}
	}
	return e
}

// VerifC13PB: everything proto.Unmarshal can hand over (nil sub-messages, any
// field counts and lengths) goes through the protobuf serializer's Decode
// without a panic.
func VerifC13PB() {
	kind := rt.Choice(NumPBKinds)
	devAt, site, unknownBackend = rt.Choice(rt.Bound("maxSites", 70)+1)-1, 0, false
	env := pbEnvelope(kind)
	rt.Assume(devAt < site) // the deviation site exists in this message kind
	data, err := proto.Marshal(env)
	rt.Assume(err == nil && len(data) < 60000)
	var frame bytes.Buffer
	binary.Write(&frame, binary.BigEndian, uint16(len(data)))
	frame.Write(data)
	ser := protobuf.Serializer()
	panicked := rt.Try(func() { _, _ = ser.Decode(bytes.NewReader(frame.Bytes())) })
	rt.Known("F3pb", unknownBackend)
	rt.Assert("c13.pb.nopanic", !panicked)
	rt.Reach("c13.pb")
}

