// Package c09: state machine operations follow the documented phase protocol
// atomically (reference automaton: DESIGN.md Appendix A.2).
package c09

import (
	"perun.network/go-perun/channel"
	"perun.network/go-perun/internal/verifh/gen"
	"perun.network/go-perun/internal/verifh/mach"
	rt "perun.network/go-perun/internal/verifrt"
)

func allFilled(pre *mach.Pre) bool {
	if pre.Staging.State == nil {
		return false
	}
	for _, f := range pre.StgSlots {
		if !f {
			return false
		}
	}
	return true
}

func in(p channel.Phase, ps ...channel.Phase) bool {
	for _, q := range ps {
		if p == q {
			return true
		}
	}
	return false
}

// validSuccessor: Appendix A.1 specialised to the harness's candidate shape
// (same shape as the current state, NoApp).
func validSuccessor(w *mach.World, cur, to *channel.State, actor channel.Index) bool {
	ok := rt.And(to.ID == w.Params.ID(), rt.And(!cur.IsFinal, to.Version == cur.Version+1))
	ok = rt.And(ok, int(actor) < w.N)
	ok = rt.And(ok, cur.Assets[0].Equal(to.Assets[0]))
	sc, st := gen.SumBals(cur.Balances[0]), gen.SumBals(to.Balances[0])
	return rt.And(ok, rt.BigEq(sc, st))
}

// enabled: the precondition column of the reference automaton.
func enabled(w *mach.World, pre *mach.Pre, a *mach.Args) bool {
	ph := pre.Phase
	switch a.Op {
	case mach.OpInit:
		return ph == channel.InitActing && a.AllocOK
	case mach.OpUpdate:
		return ph == channel.Acting && validSuccessor(w, pre.Current.State, a.State, a.Actor)
	case mach.OpForceUpdate:
		return true
	case mach.OpCheckUpdate:
		// read-only; succeeds iff valid successor and valid signature (needs a current state)
		return rt.And(validSuccessor(w, pre.Current.State, a.State, a.Actor), a.SigOK)
	case mach.OpSig:
		return mach.Signing(ph)
	case mach.OpAddSig:
		return mach.Signing(ph) && !pre.StgSlots[a.SigIdx] && a.SigOK
	case mach.OpDiscard:
		return ph == channel.Signing
	case mach.OpEnableInit:
		return ph == channel.InitSigning && allFilled(pre) && !pre.Staging.IsFinal
	case mach.OpEnableUpdate:
		return ph == channel.Signing && allFilled(pre) && !pre.Staging.IsFinal
	case mach.OpEnableFinal:
		return ph == channel.Signing && allFilled(pre) && pre.Staging.IsFinal
	case mach.OpSetFunded:
		return ph == channel.Funding
	case mach.OpSetRegistering, mach.OpSetRegistered:
		return ph >= channel.Funding
	case mach.OpSetProgressing:
		return in(ph, channel.Registered, channel.Progressing, channel.Progressed)
	case mach.OpSetProgressed:
		return true
	case mach.OpSetWithdrawing:
		return in(ph, channel.Final, channel.Registered, channel.Progressed, channel.Withdrawing)
	case mach.OpSetWithdrawn:
		return ph == channel.Withdrawing
	}
	return false
}

// target: the phase after a successful operation.
func target(pre *mach.Pre, a *mach.Args) channel.Phase {
	switch a.Op {
	case mach.OpInit:
		return channel.InitSigning
	case mach.OpUpdate, mach.OpForceUpdate:
		return channel.Signing
	case mach.OpDiscard, mach.OpEnableUpdate, mach.OpSetFunded:
		return channel.Acting
	case mach.OpEnableInit:
		return channel.Funding
	case mach.OpEnableFinal:
		return channel.Final
	case mach.OpSetRegistering:
		return channel.Registering
	case mach.OpSetRegistered:
		return channel.Registered
	case mach.OpSetProgressing:
		return channel.Progressing
	case mach.OpSetProgressed:
		return channel.Progressed
	case mach.OpSetWithdrawing:
		return channel.Withdrawing
	case mach.OpSetWithdrawn:
		return channel.Withdrawn
	}
	return pre.Phase
}

func emptySlots(m *channel.StateMachine, n int) bool {
	sigs := m.StagingTX().Sigs
	if len(sigs) != n {
		return false
	}
	for _, s := range sigs {
		if s != nil {
			return false
		}
	}
	return true
}

// effect: the effect column of the reference automaton.
func effect(w *mach.World, m *channel.StateMachine, pre *mach.Pre, snap *mach.Snapshot, a *mach.Args, sig []byte) bool {
	stg, cur := m.StagingTX(), m.CurrentTX()
	curSame := cur.State == snap.CurState
	stgSame := stg.State == snap.StgState
	switch a.Op {
	case mach.OpInit:
		s := stg.State
		return curSame && s != nil && s.ID == w.Params.ID() && s.Version == 0 && !s.IsFinal && emptySlots(m, w.N)
	case mach.OpUpdate, mach.OpForceUpdate, mach.OpSetProgressing:
		return curSame && stg.State == a.State && emptySlots(m, w.N)
	case mach.OpCheckUpdate:
		return snap.Same(m)
	case mach.OpSig:
		// own slot filled with a signature valid for (own address, staged state); nothing else changes
		if !curSame || !stgSame || m.Phase() != snap.Phase {
			return false
		}
		ok := w.Verifies(w.Own, stg.State, stg.Sigs[w.Own])
		ok = rt.And(ok, w.Verifies(w.Own, stg.State, sig))
		for i := range stg.Sigs {
			if i != w.Own && (stg.Sigs[i] == nil) != (snap.StgSigs[i] == nil) {
				return false
			}
		}
		return ok
	case mach.OpAddSig:
		if !curSame || !stgSame {
			return false
		}
		for i := range stg.Sigs {
			if i != a.SigIdx && (stg.Sigs[i] == nil) != (snap.StgSigs[i] == nil) {
				return false
			}
		}
		return w.Verifies(a.SigIdx, stg.State, stg.Sigs[a.SigIdx])
	case mach.OpDiscard:
		return curSame && stg.State == nil
	case mach.OpEnableInit, mach.OpEnableUpdate, mach.OpEnableFinal:
		return cur.State == snap.StgState && stg.State == nil && len(cur.Sigs) == w.N
	case mach.OpSetProgressed:
		if cur.State != a.State || stg.State != nil || len(cur.Sigs) != w.N {
			return false
		}
		for _, s := range cur.Sigs {
			if s != nil {
				return false
			}
		}
		return true
	default: // pure phase setters
		return curSame && stgSame
	}
}

// VerifC09Step: one operation from an arbitrary invariant-satisfying machine
// behaves as the reference automaton says.
func VerifC09Step() {
	gen.K, gen.Exact = 1, true
	w := mach.NewWorld(2, rt.Choice(2))
	m, pre := mach.ArbitraryMachine(w)
	a := mach.DrawArgs(w, m, pre)
	// the unchecked forced update and the transition checks need a current state
	if a.Op == mach.OpForceUpdate || a.Op == mach.OpUpdate || a.Op == mach.OpCheckUpdate {
		rt.Assume(pre.Current.State != nil)
	}
	snap := mach.Snap(m)
	var err error
	var sig []byte
	panicked := rt.Try(func() { sig, err = mach.Apply(m, a) })
	rt.Assert("c09.step.nopanic", !panicked)
	rt.Reach("c09.step")
	en := enabled(w, pre, a)
	rt.Assert("c09.step.enabled-iff-ok", (err == nil) == en)
	if err == nil {
		rt.Reach("c09.step.ok")
		rt.Assert("c09.step.target", m.Phase() == target(pre, a))
		rt.Assert("c09.step.effect", effect(w, m, pre, snap, a, sig))
	} else {
		rt.Reach("c09.step.refused")
		rt.Assert("c09.step.atomic", snap.Same(m))
		rt.Assert("c09.step.no-sig-on-error", sig == nil)
	}
}
