// Package cw ("client world"): a real client.Client wired to harness stubs
// (bus, funder, adjudicator, watcher) with channels in arbitrary states.
package cw

import (
	"context"
	cryptorand "crypto/rand"
	"errors"
	"math/big"
	"sync"

	simwallet "perun.network/go-perun/backend/sim/wallet"
	simwire "perun.network/go-perun/backend/sim/wire"
	"perun.network/go-perun/channel"
	"perun.network/go-perun/client"
	"perun.network/go-perun/internal/verifh/gen"
	rt "perun.network/go-perun/internal/verifrt"
	"perun.network/go-perun/wallet"
	"perun.network/go-perun/watcher"
	"perun.network/go-perun/wire"
)

// Bus records published envelopes and lets the harness inject envelopes.
type Bus struct {
	mu       sync.Mutex
	Sent     []*wire.Envelope
	Consumer wire.Consumer
	FailSend bool
	OnSend   func(*wire.Envelope) // called (outside the lock) for every publication
	// Unreachable, if set, names recipients that cannot be reached: Publish to
	// them blocks until the caller's context ends and returns its error (what a
	// bus does for an offline or made-up address).
	Unreachable func(map[wallet.BackendID]wire.Address) bool
}

// Publish implements wire.Publisher.
func (b *Bus) Publish(ctx context.Context, e *wire.Envelope) error {
	if b.Unreachable != nil && b.Unreachable(e.Recipient) {
		<-ctx.Done()
		return ctx.Err()
	}
	b.mu.Lock()
	if b.FailSend {
		b.mu.Unlock()
		return errors.New("bus: send failed")
	}
	b.Sent = append(b.Sent, e)
	hook := b.OnSend
	b.mu.Unlock()
	if hook != nil {
		hook(e)
	}
	return nil
}

// SubscribeClient implements wire.Bus.
func (b *Bus) SubscribeClient(c wire.Consumer, _ map[wallet.BackendID]wire.Address) error {
	b.Consumer = c
	return nil
}

// Messages returns the messages published so far.
func (b *Bus) Messages() []wire.Msg {
	b.mu.Lock()
	defer b.mu.Unlock()
	out := make([]wire.Msg, len(b.Sent))
	for i, e := range b.Sent {
		out[i] = e.Msg
	}
	return out
}

type funder struct{}

func (funder) Fund(context.Context, channel.FundingReq) error { return nil }

type adjudicator struct{}

func (adjudicator) Register(context.Context, channel.AdjudicatorReq, []channel.SignedState) error {
	return nil
}
func (adjudicator) Withdraw(context.Context, channel.AdjudicatorReq, channel.StateMap) error {
	return nil
}
func (adjudicator) Progress(context.Context, channel.ProgressReq) error { return nil }
func (adjudicator) Subscribe(context.Context, channel.ID) (channel.AdjudicatorSubscription, error) {
	return nil, errors.New("no events")
}

type noWatcher struct{}

type noPub struct{}

func (noPub) Publish(context.Context, channel.Transaction) error { return nil }

type noSub struct{ ch chan channel.AdjudicatorEvent }

func (s noSub) EventStream() <-chan channel.AdjudicatorEvent { return s.ch }
func (noSub) Err() error                                     { return nil }

func (noWatcher) StartWatchingLedgerChannel(context.Context, channel.SignedState) (watcher.StatesPub, watcher.AdjudicatorSub, error) {
	return noPub{}, noSub{make(chan channel.AdjudicatorEvent)}, nil
}
func (noWatcher) StartWatchingSubChannel(context.Context, channel.ID, channel.SignedState) (watcher.StatesPub, watcher.AdjudicatorSub, error) {
	return noPub{}, noSub{make(chan channel.AdjudicatorEvent)}, nil
}
func (noWatcher) StopWatching(context.Context, channel.ID) error { return nil }

// World is one honest client ("own") and the key material of its peers.
type World struct {
	Client   *client.Client
	Bus      *Bus
	Own      *simwallet.Account
	Peer     *simwallet.Account // the channel counterparty (adversary holding its own valid key)
	Stranger *simwallet.Account
	OwnWire  map[wallet.BackendID]wire.Address
	PeerWire map[wallet.BackendID]wire.Address
	Other    map[wallet.BackendID]wire.Address
}

// WireAddr builds a sim wire address.
func WireAddr(tag byte) map[wallet.BackendID]wire.Address {
	var a simwire.Address
	a[0] = tag
	return map[wallet.BackendID]wire.Address{channel.TestBackendID: &a}
}

// New creates the client.
func New() *World {
	w := &World{Bus: &Bus{}, Own: simwallet.NewRandomAccount(cryptorand.Reader), Peer: simwallet.NewRandomAccount(cryptorand.Reader),
		Stranger: simwallet.NewRandomAccount(cryptorand.Reader), OwnWire: WireAddr(0x01), PeerWire: WireAddr(0x02), Other: WireAddr(0x03)}
	wl := simwallet.NewRestoredWallet(w.Own)
	_, uerr := wl.Unlock(w.Own.Address()) // restored accounts are locked
	rt.Assume(uerr == nil)
	c, err := client.New(w.OwnWire, w.Bus, funder{}, adjudicator{}, map[wallet.BackendID]wallet.Wallet{channel.TestBackendID: wl}, noWatcher{})
	rt.Assume(err == nil)
	w.Client = c
	return w
}

// Params builds two-party parameters; ownIdx is the honest client's index.
func (w *World) Params(ownIdx int, nonce int64, app channel.App, virtual bool) *channel.Params {
	parts := make([]map[wallet.BackendID]wallet.Address, 2)
	parts[ownIdx] = map[wallet.BackendID]wallet.Address{channel.TestBackendID: w.Own.Address()}
	parts[1-ownIdx] = map[wallet.BackendID]wallet.Address{channel.TestBackendID: w.Peer.Address()}
	p, err := channel.NewParams(60, parts, app, big.NewInt(nonce), !virtual, virtual, channel.Aux{})
	rt.Assume(err == nil)
	return p
}

// Peers returns the wire peers list for the own index.
func (w *World) Peers(ownIdx int) []map[wallet.BackendID]wire.Address {
	ps := make([]map[wallet.BackendID]wire.Address, 2)
	ps[ownIdx], ps[1-ownIdx] = w.OwnWire, w.PeerWire
	return ps
}

// Sign signs with the own (who=0), the peer's (1) or the stranger's (2) key.
func (w *World) Sign(who int, s *channel.State) wallet.Sig {
	acc := []*simwallet.Account{w.Own, w.Peer, w.Stranger}[who]
	sig, err := channel.Sign(acc, s, channel.TestBackendID)
	rt.Assume(err == nil)
	return sig
}

// Adopt registers a channel in phase ph with the given current state (fully
// signed) with the client.
func (w *World) Adopt(p *channel.Params, ownIdx int, ph channel.Phase, cur *channel.State, parent *client.Channel) *client.Channel {
	sigs := make([]wallet.Sig, 2)
	sigs[ownIdx], sigs[1-ownIdx] = w.Sign(0, cur), w.Sign(1, cur)
	src := &gen.Source{IdxV: channel.Index(ownIdx), ParamsV: p, PhaseV: ph, Current: channel.Transaction{State: cur, Sigs: sigs}}
	ch, err := w.Client.VerifAdoptChannel(src, w.Peers(ownIdx), parent)
	rt.Assume(err == nil)
	return ch
}

// ParamsWith builds two-party parameters with an arbitrary counterparty.
func (w *World) ParamsWith(peer *simwallet.Account, ownIdx int, nonce int64, virtual bool) *channel.Params {
	parts := make([]map[wallet.BackendID]wallet.Address, 2)
	parts[ownIdx] = map[wallet.BackendID]wallet.Address{channel.TestBackendID: w.Own.Address()}
	parts[1-ownIdx] = map[wallet.BackendID]wallet.Address{channel.TestBackendID: peer.Address()}
	p, err := channel.NewParams(60, parts, channel.NoApp(), big.NewInt(nonce), !virtual, virtual, channel.Aux{})
	rt.Assume(err == nil)
	return p
}

// SignAs signs with an arbitrary account.
func SignAs(acc *simwallet.Account, s *channel.State) wallet.Sig {
	sig, err := channel.Sign(acc, s, channel.TestBackendID)
	rt.Assume(err == nil)
	return sig
}

// AdoptWith is Adopt for a channel with an arbitrary counterparty.
func (w *World) AdoptWith(peer *simwallet.Account, peerWire map[wallet.BackendID]wire.Address, p *channel.Params, ownIdx int, ph channel.Phase, cur *channel.State, parent *client.Channel) *client.Channel {
	sigs := make([]wallet.Sig, 2)
	sigs[ownIdx], sigs[1-ownIdx] = SignAs(w.Own, cur), SignAs(peer, cur)
	ps := make([]map[wallet.BackendID]wire.Address, 2)
	ps[ownIdx], ps[1-ownIdx] = w.OwnWire, peerWire
	src := &gen.Source{IdxV: channel.Index(ownIdx), ParamsV: p, PhaseV: ph, Current: channel.Transaction{State: cur, Sigs: sigs}}
	ch, err := w.Client.VerifAdoptChannel(src, ps, parent)
	rt.Assume(err == nil)
	return ch
}

// Net is a bus for several clients: an envelope is handed synchronously to the
// consumer subscribed under its recipient address (per-connection order is
// preserved, as on a real connection).
type Net struct {
	mu   sync.Mutex
	subs []netSub
	Sent []*wire.Envelope
	// Drop, if set, decides per envelope whether it is lost on the way.
	Drop func(*wire.Envelope) bool
	// Yield makes every Publish a schedule point after the envelope was handed
	// over and before Publish returns to the sender.
	Yield bool
}

type netSub struct {
	addr map[wallet.BackendID]wire.Address
	c    wire.Consumer
}

// SubscribeClient implements wire.Bus.
func (n *Net) SubscribeClient(c wire.Consumer, a map[wallet.BackendID]wire.Address) error {
	n.mu.Lock()
	n.subs = append(n.subs, netSub{a, c})
	n.mu.Unlock()
	return nil
}

// Publish implements wire.Publisher.
func (n *Net) Publish(_ context.Context, e *wire.Envelope) error {
	n.mu.Lock()
	n.Sent = append(n.Sent, e)
	var to wire.Consumer
	for _, s := range n.subs {
		if channel.EqualWireMaps(s.addr, e.Recipient) {
			to = s.c
		}
	}
	drop := n.Drop != nil && n.Drop(e)
	n.mu.Unlock()
	if to == nil {
		return errors.New("net: unknown recipient")
	}
	if !drop {
		to.Put(e)
	}
	if n.Yield {
		// the tag names sender and message type, so that the recorded order of
		// schedule points identifies who went first in a native replay
		tag := []byte("pub s.. t..")
		if a, ok := e.Sender[channel.TestBackendID].(*simwire.Address); ok {
			tag[5], tag[6] = hexDigit(a[0]>>4), hexDigit(a[0]&15)
		}
		t := uint8(e.Msg.Type())
		tag[9], tag[10] = hexDigit(t>>4), hexDigit(t&15)
		rt.SchedPoint(string(tag))
	}
	return nil
}

// Pair is two honest clients A (index 0) and B (index 1) on one Net.
type Pair struct {
	Net  *Net
	C    [2]*client.Client
	Acc  [2]*simwallet.Account
	Wire [2]map[wallet.BackendID]wire.Address
}

// NewPair creates the two clients.
func NewPair() *Pair {
	p := &Pair{Net: &Net{}}
	for i := 0; i < 2; i++ {
		p.Acc[i] = simwallet.NewRandomAccount(cryptorand.Reader)
		p.Wire[i] = WireAddr(byte(0x11 + i))
		wl := simwallet.NewRestoredWallet(p.Acc[i])
		_, uerr := wl.Unlock(p.Acc[i].Address())
		rt.Assume(uerr == nil)
		c, err := client.New(p.Wire[i], p.Net, funder{}, adjudicator{}, map[wallet.BackendID]wallet.Wallet{channel.TestBackendID: wl}, noWatcher{})
		rt.Assume(err == nil)
		p.C[i] = c
	}
	return p
}

// Open registers the same channel (phase Acting, current state cur signed by
// both) with both clients.
func (p *Pair) Open(nonce int64, cur func(id channel.ID) *channel.State) (params *channel.Params, st *channel.State, chs [2]*client.Channel) {
	parts := []map[wallet.BackendID]wallet.Address{{channel.TestBackendID: p.Acc[0].Address()}, {channel.TestBackendID: p.Acc[1].Address()}}
	params, err := channel.NewParams(60, parts, channel.NoApp(), big.NewInt(nonce), true, false, channel.Aux{})
	rt.Assume(err == nil)
	st = cur(params.ID())
	sigs := []wallet.Sig{SignAs(p.Acc[0], st), SignAs(p.Acc[1], st)}
	peers := []map[wallet.BackendID]wire.Address{p.Wire[0], p.Wire[1]}
	for i := 0; i < 2; i++ {
		src := &gen.Source{IdxV: channel.Index(i), ParamsV: params, PhaseV: channel.Acting,
			Current: channel.Transaction{State: st.Clone(), Sigs: []wallet.Sig{append(wallet.Sig(nil), sigs[0]...), append(wallet.Sig(nil), sigs[1]...)}}}
		ch, err := p.C[i].VerifAdoptChannel(src, peers, nil)
		rt.Assume(err == nil)
		chs[i] = ch
	}
	return params, st, chs
}

func hexDigit(b byte) byte { return "0123456789abcdef"[b] }
