// Package c06: update protocol agreement between two honest clients.
package c06

import (
	"context"
	"errors"
	"math/big"

	"perun.network/go-perun/channel"
	"perun.network/go-perun/client"
	"perun.network/go-perun/internal/verifh/cw"
	"perun.network/go-perun/internal/verifh/gen"
	rt "perun.network/go-perun/internal/verifrt"
	"perun.network/go-perun/wallet"
)

type party struct {
	ch      *client.Channel
	accept  []bool // decision for the k-th incoming update
	handled int
}

type world struct {
	p    *cw.Pair
	par  [2]*party
	init *channel.State
	prm  *channel.Params
}

type noProposals struct{}

func (noProposals) HandleProposal(client.ChannelProposal, *client.ProposalResponder) {}

func (w *world) handler(i int) client.UpdateHandler {
	me := w.par[i]
	return client.UpdateHandlerFunc(func(_ *channel.State, _ client.ChannelUpdate, r *client.UpdateResponder) {
		k := me.handled
		me.handled++
		ctx, cancel := context.WithTimeout(context.Background(), 2000000000)
		defer cancel()
		if k < len(me.accept) && me.accept[k] {
			_ = r.Accept(ctx)
		} else {
			_ = r.Reject(ctx, "no")
		}
	})
}

func newWorld(decisions int) *world {
	gen.K, gen.Exact = 1, true
	w := &world{p: cw.NewPair()}
	var chs [2]*client.Channel
	w.prm, w.init, chs = w.p.Open(7, func(id channel.ID) *channel.State {
		return &channel.State{ID: id, Version: uint64(rt.NondetU8()), App: channel.NoApp(), Data: channel.NoData(),
			Allocation: channel.Allocation{Assets: gen.Assets(1), Backends: gen.Backends(1), Balances: channel.Balances{gen.Bals(2)}}}
	})
	for i := 0; i < 2; i++ {
		w.par[i] = &party{ch: chs[i]}
		for k := 0; k < decisions; k++ {
			w.par[i].accept = append(w.par[i].accept, rt.NondetBool())
		}
	}
	for i := 0; i < 2; i++ {
		go w.p.C[i].Handle(noProposals{}, w.handler(i))
	}
	return w
}

// pay: party i proposes to pay amount d to the other party.
func (w *world) pay(i int, d *big.Int) (error, *channel.State) {
	ctx, cancel := context.WithTimeout(context.Background(), 5000000000)
	defer cancel()
	var proposed *channel.State
	err := w.par[i].ch.Update(ctx, func(s *channel.State) {
		s.Balances[0][i] = new(big.Int).Sub(s.Balances[0][i], d)
		s.Balances[0][1-i] = new(big.Int).Add(s.Balances[0][1-i], d)
		proposed = s.Clone()
		proposed.Version++
	})
	return err, proposed
}

func (w *world) cur(i int) channel.Transaction {
	tx, _, _ := view(w.par[i].ch)
	return tx
}

func (w *world) fullySigned(i int) bool {
	tx := w.cur(i)
	if tx.State == nil || len(tx.Sigs) != 2 {
		return false
	}
	for k := 0; k < 2; k++ {
		ok, err := channel.Verify(w.p.Acc[k].Address(), tx.State, tx.Sigs[k])
		if err != nil || !ok {
			return false
		}
	}
	return true
}

func isTimeout(err error) bool {
	var t client.RequestTimedOutError
	return errors.As(err, &t)
}

func isRejection(err error) bool {
	var r client.PeerRejectedError
	return errors.As(err, &r)
}

// VerifC06Sequential: a program of n sequential proposals by either party with
// arbitrary accept/reject decisions.
func VerifC06Sequential() {
	n := rt.Bound("n", 2)
	w := newWorld(n)
	ref := w.init.Clone() // the state both must hold
	for step := 0; step < n; step++ {
		i := rt.Choice(2)
		d := gen.Bal()
		rt.Assume(ref.Balances[0][i].Cmp(d) >= 0)
		decision := w.par[1-i].handled
		err, proposed := w.pay(i, d)
		rt.Quiesce()
		rt.Assert("c06.seq.no-timeout", !isTimeout(err))
		accepted := decision < len(w.par[1-i].accept) && w.par[1-i].accept[decision]
		if err == nil {
			rt.Reach("c06.seq.success")
			rt.Assert("c06.seq.success-only-if-accepted", accepted)
			ref = proposed
		} else {
			rt.Reach("c06.seq.refused")
			rt.Assert("c06.seq.refusal-is-rejection", isRejection(err) && !accepted)
		}
		for k := 0; k < 2; k++ {
			tx := w.cur(k)
			rt.Assert("c06.seq.same-state", tx.State.Version == ref.Version && tx.State.Equal(ref) == nil)
			rt.Assert("c06.seq.fully-signed", w.fullySigned(k))
			_, ph, free := view(w.par[k].ch)
			rt.Assert("c06.seq.ready", free && ph == channel.Acting)
		}
	}
	rt.Reach("c06.seq")
}


// view reads the channel's current transaction and phase under its machine
// mutex; ok is false if the mutex is not free.
func view(ch *client.Channel) (tx channel.Transaction, ph channel.Phase, ok bool) {
	ok = ch.VerifLocked(func(m channel.Source) {
		tx, ph = m.CurrentTX().Clone(), m.Phase()
	})
	return
}

type chanPair struct {
	init *channel.State
	ch   [2]*client.Channel
}

func fullySigned(p *cw.Pair, ch *client.Channel) bool {
	tx, _, free := view(ch)
	if !free || tx.State == nil || len(tx.Sigs) != 2 {
		return false
	}
	for k := 0; k < 2; k++ {
		ok, err := channel.Verify(p.Acc[k].Address(), tx.State, tx.Sigs[k])
		if err != nil || !ok {
			return false
		}
	}
	return true
}

// VerifC06Concurrent: both parties propose at the same time, on the same
// channel or on two different channels of the same client pair.
func VerifC06Concurrent() {
	gen.K, gen.Exact = 1, true
	p := cw.NewPair()
	two := rt.NondetBool() // two channels: A proposes on the first, B on the second
	var cps []*chanPair
	for c := 0; c < 2; c++ {
		if c == 1 && !two {
			break
		}
		_, st, chs := p.Open(int64(7+c), func(id channel.ID) *channel.State {
			return &channel.State{ID: id, Version: uint64(rt.NondetU8()), App: channel.NoApp(), Data: channel.NoData(),
				Allocation: channel.Allocation{Assets: gen.Assets(1), Backends: gen.Backends(1), Balances: channel.Balances{gen.Bals(2)}}}
		})
		cps = append(cps, &chanPair{init: st, ch: chs})
	}
	accept := [2]bool{rt.NondetBool(), rt.NondetBool()} // decision of party i on the other's proposal
	for i := 0; i < 2; i++ {
		i := i
		go p.C[i].Handle(noProposals{}, client.UpdateHandlerFunc(func(_ *channel.State, _ client.ChannelUpdate, r *client.UpdateResponder) {
			ctx, cancel := context.WithTimeout(context.Background(), 2000000000)
			defer cancel()
			if accept[i] {
				_ = r.Accept(ctx)
			} else {
				_ = r.Reject(ctx, "no")
			}
		}))
	}
	var errs [2]error
	var proposed [2]*channel.State
	done := make(chan int, 2)
	for i := 0; i < 2; i++ {
		i := i
		cp := cps[0]
		if two {
			cp = cps[i]
		}
		d := gen.Bal()
		rt.Assume(cp.init.Balances[0][i].Cmp(d) >= 0)
		go func() {
			ctx, cancel := context.WithTimeout(context.Background(), 5000000000)
			defer cancel()
			errs[i] = cp.ch[i].Update(ctx, func(s *channel.State) {
				s.Balances[0][i] = new(big.Int).Sub(s.Balances[0][i], d)
				s.Balances[0][1-i] = new(big.Int).Add(s.Balances[0][1-i], d)
				proposed[i] = s.Clone()
				proposed[i].Version++
			})
			done <- i
		}()
	}
	<-done
	<-done
	rt.Quiesce()
	rt.Reach("c06.conc")
	timedOut := isTimeout(errs[0]) || isTimeout(errs[1])
	for _, cp := range cps {
		for k := 0; k < 2; k++ {
			rt.Assert("c06.conc.fully-signed", fullySigned(p, cp.ch[k]))
		}
	}
	if timedOut {
		rt.Reach("c06.conc.timeout")
		return
	}
	rt.Reach("c06.conc.no-timeout")
	for i := 0; i < 2; i++ {
		ok := errs[i] == nil
		rt.Assert("c06.conc.success-iff-accepted", ok == accept[1-i])
		rt.Assert("c06.conc.refusal-is-rejection", ok || isRejection(errs[i]))
	}
	for c, cp := range cps {
		txa, _, _ := view(cp.ch[0])
		txb, _, _ := view(cp.ch[1])
		a, b := txa.State, txb.State
		rt.Assert("c06.conc.same-state", a.Version == b.Version && a.Equal(b) == nil)
		succ := uint64(0)
		var last *channel.State
		for i := 0; i < 2; i++ {
			if (two && i != c) || errs[i] != nil {
				continue
			}
			succ++
			if last == nil || proposed[i].Version > last.Version {
				last = proposed[i]
			}
		}
		rt.Assert("c06.conc.version", a.Version == cp.init.Version+succ)
		if last != nil {
			rt.Assert("c06.conc.last-proposed-is-current", a.Equal(last) == nil)
		} else {
			rt.Assert("c06.conc.unchanged", a.Equal(cp.init) == nil)
		}
		for k := 0; k < 2; k++ {
			_, ph, free := view(cp.ch[k])
			rt.Assert("c06.conc.ready", free && ph == channel.Acting)
		}
	}
}

var _ = wallet.Sig(nil)
