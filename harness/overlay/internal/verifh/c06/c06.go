// Package c06: update protocol agreement between two honest clients.
package c06

import (
	"perun.network/go-perun/wire"
	"context"
	"errors"
	"math/big"

	"perun.network/go-perun/channel"
	"perun.network/go-perun/client"
	"perun.network/go-perun/internal/verifh/cw"
	"perun.network/go-perun/internal/verifh/gen"
	rt "perun.network/go-perun/internal/verifrt"
	"perun.network/go-perun/wallet"
)

type party struct {
	ch      *client.Channel
	accept  []bool // decision for the k-th incoming update
	handled int
}

type world struct {
	p    *cw.Pair
	par  [2]*party
	init *channel.State
	prm  *channel.Params
}

type noProposals struct{}

func (noProposals) HandleProposal(client.ChannelProposal, *client.ProposalResponder) {}

func (w *world) handler(i int) client.UpdateHandler {
	me := w.par[i]
	return client.UpdateHandlerFunc(func(_ *channel.State, _ client.ChannelUpdate, r *client.UpdateResponder) {
		k := me.handled
		me.handled++
		ctx, cancel := context.WithTimeout(context.Background(), 2000000000)
		defer cancel()
		if k < len(me.accept) && me.accept[k] {
			_ = r.Accept(ctx)
		} else {
			_ = r.Reject(ctx, "no")
		}
	})
}

func newWorld(decisions int) *world {
	gen.K, gen.Exact = 1, true
	w := &world{p: cw.NewPair()}
	var chs [2]*client.Channel
	w.prm, w.init, chs = w.p.Open(7, func(id channel.ID) *channel.State {
		return &channel.State{ID: id, Version: uint64(rt.NondetU8()), App: channel.NoApp(), Data: channel.NoData(),
			Allocation: channel.Allocation{Assets: gen.Assets(1), Backends: gen.Backends(1), Balances: channel.Balances{gen.Bals(2)}}}
	})
	for i := 0; i < 2; i++ {
		w.par[i] = &party{ch: chs[i]}
		for k := 0; k < decisions; k++ {
			w.par[i].accept = append(w.par[i].accept, rt.NondetBool())
		}
	}
	for i := 0; i < 2; i++ {
		go w.p.C[i].Handle(noProposals{}, w.handler(i))
	}
	return w
}

// pay: party i proposes to pay amount d to the other party.
func (w *world) pay(i int, d *big.Int) (error, *channel.State) {
	ctx, cancel := context.WithTimeout(context.Background(), 5000000000)
	defer cancel()
	var proposed *channel.State
	err := w.par[i].ch.Update(ctx, func(s *channel.State) {
		s.Balances[0][i] = new(big.Int).Sub(s.Balances[0][i], d)
		s.Balances[0][1-i] = new(big.Int).Add(s.Balances[0][1-i], d)
		proposed = s.Clone()
		proposed.Version++
	})
	return err, proposed
}

func (w *world) cur(i int) channel.Transaction {
	tx, _, _ := view(w.par[i].ch)
	return tx
}

func (w *world) fullySigned(i int) bool {
	tx := w.cur(i)
	if tx.State == nil || len(tx.Sigs) != 2 {
		return false
	}
	for k := 0; k < 2; k++ {
		ok, err := channel.Verify(w.p.Acc[k].Address(), tx.State, tx.Sigs[k])
		if err != nil || !ok {
			return false
		}
	}
	return true
}

func isTimeout(err error) bool {
	var t client.RequestTimedOutError
	return errors.As(err, &t)
}

func isRejection(err error) bool {
	var r client.PeerRejectedError
	return errors.As(err, &r)
}

// VerifC06Sequential: a program of n sequential proposals by either party with
// arbitrary accept/reject decisions.
func VerifC06Sequential() {
	n := rt.Bound("n", 2)
	w := newWorld(n)
	ref := w.init.Clone() // the state both must hold
	for step := 0; step < n; step++ {
		i := rt.Choice(2)
		d := gen.Bal()
		rt.Assume(ref.Balances[0][i].Cmp(d) >= 0)
		decision := w.par[1-i].handled
		err, proposed := w.pay(i, d)
		rt.Quiesce()
		rt.Assert("c06.seq.no-timeout", !isTimeout(err))
		accepted := decision < len(w.par[1-i].accept) && w.par[1-i].accept[decision]
		if err == nil {
			rt.Reach("c06.seq.success")
			rt.Assert("c06.seq.success-only-if-accepted", accepted)
			ref = proposed
		} else {
			rt.Reach("c06.seq.refused")
			rt.Assert("c06.seq.refusal-is-rejection", isRejection(err) && !accepted)
		}
		for k := 0; k < 2; k++ {
			tx := w.cur(k)
			rt.Assert("c06.seq.same-state", tx.State.Version == ref.Version && tx.State.Equal(ref) == nil)
			rt.Assert("c06.seq.fully-signed", w.fullySigned(k))
			_, ph, free := view(w.par[k].ch)
			rt.Assert("c06.seq.ready", free && ph == channel.Acting)
		}
	}
	rt.Reach("c06.seq")
}


// view reads the channel's current transaction and phase under its machine
// mutex; ok is false if the mutex is not free.
func view(ch *client.Channel) (tx channel.Transaction, ph channel.Phase, ok bool) {
	ok = ch.VerifLocked(func(m channel.Source) {
		tx, ph = m.CurrentTX().Clone(), m.Phase()
	})
	return
}

type chanPair struct {
	init *channel.State
	ch   [2]*client.Channel
}

func fullySigned(p *cw.Pair, ch *client.Channel) bool {
	tx, _, free := view(ch)
	if !free || tx.State == nil || len(tx.Sigs) != 2 {
		return false
	}
	for k := 0; k < 2; k++ {
		ok, err := channel.Verify(p.Acc[k].Address(), tx.State, tx.Sigs[k])
		if err != nil || !ok {
			return false
		}
	}
	return true
}

// VerifC06Concurrent: both parties propose at the same time, on the same
// channel or on two different channels of the same client pair.
func VerifC06Concurrent() {
	gen.K, gen.Exact = 1, true
	p := cw.NewPair()
	two := rt.NondetBool() // two channels: A proposes on the first, B on the second
	var cps []*chanPair
	for c := 0; c < 2; c++ {
		if c == 1 && !two {
			break
		}
		_, st, chs := p.Open(int64(7+c), func(id channel.ID) *channel.State {
			return &channel.State{ID: id, Version: uint64(rt.NondetU8()), App: channel.NoApp(), Data: channel.NoData(),
				Allocation: channel.Allocation{Assets: gen.Assets(1), Backends: gen.Backends(1), Balances: channel.Balances{gen.Bals(2)}}}
		})
		cps = append(cps, &chanPair{init: st, ch: chs})
	}
	accept := [2]bool{rt.NondetBool(), rt.NondetBool()} // decision of party i on the other's proposal
	for i := 0; i < 2; i++ {
		i := i
		go p.C[i].Handle(noProposals{}, client.UpdateHandlerFunc(func(_ *channel.State, _ client.ChannelUpdate, r *client.UpdateResponder) {
			ctx, cancel := context.WithTimeout(context.Background(), 2000000000)
			defer cancel()
			if accept[i] {
				_ = r.Accept(ctx)
			} else {
				_ = r.Reject(ctx, "no")
			}
		}))
	}
	var errs [2]error
	var proposed [2]*channel.State
	done := make(chan int, 2)
	for i := 0; i < 2; i++ {
		i := i
		cp := cps[0]
		if two {
			cp = cps[i]
		}
		d := gen.Bal()
		rt.Assume(cp.init.Balances[0][i].Cmp(d) >= 0)
		go func() {
			ctx, cancel := context.WithTimeout(context.Background(), 5000000000)
			defer cancel()
			errs[i] = cp.ch[i].Update(ctx, func(s *channel.State) {
				s.Balances[0][i] = new(big.Int).Sub(s.Balances[0][i], d)
				s.Balances[0][1-i] = new(big.Int).Add(s.Balances[0][1-i], d)
				proposed[i] = s.Clone()
				proposed[i].Version++
			})
			done <- i
		}()
	}
	<-done
	<-done
	rt.Quiesce()
	rt.Reach("c06.conc")
	timedOut := isTimeout(errs[0]) || isTimeout(errs[1])
	for _, cp := range cps {
		for k := 0; k < 2; k++ {
			rt.Assert("c06.conc.fully-signed", fullySigned(p, cp.ch[k]))
		}
	}
	if timedOut {
		rt.Reach("c06.conc.timeout")
		return
	}
	rt.Reach("c06.conc.no-timeout")
	for i := 0; i < 2; i++ {
		ok := errs[i] == nil
		rt.Assert("c06.conc.success-iff-accepted", ok == accept[1-i])
		rt.Assert("c06.conc.refusal-is-rejection", ok || isRejection(errs[i]))
	}
	for c, cp := range cps {
		txa, _, _ := view(cp.ch[0])
		txb, _, _ := view(cp.ch[1])
		a, b := txa.State, txb.State
		rt.Assert("c06.conc.same-state", a.Version == b.Version && a.Equal(b) == nil)
		succ := uint64(0)
		var last *channel.State
		for i := 0; i < 2; i++ {
			if (two && i != c) || errs[i] != nil {
				continue
			}
			succ++
			if last == nil || proposed[i].Version > last.Version {
				last = proposed[i]
			}
		}
		rt.Assert("c06.conc.version", a.Version == cp.init.Version+succ)
		if last != nil {
			rt.Assert("c06.conc.last-proposed-is-current", a.Equal(last) == nil)
		} else {
			rt.Assert("c06.conc.unchanged", a.Equal(cp.init) == nil)
		}
		for k := 0; k < 2; k++ {
			_, ph, free := view(cp.ch[k])
			rt.Assert("c06.conc.ready", free && ph == channel.Acting)
		}
	}
}

var _ = wallet.Sig(nil)

// VerifC06EarlyUpdate: the proposer's first update (version 1) reaches the
// responder while the channel is still being opened there (k openings are
// running); it is cached and handed to the handler when an opening finishes.
// The request must be handled exactly once: a rejected update must not be
// accepted later behind the proposer's back.
func VerifC06EarlyUpdate() {
	gen.K, gen.Exact = 1, true
	w := cw.New()
	ownIdx := rt.Choice(2)
	params := w.Params(ownIdx, 7, channel.NoApp(), false)
	init := &channel.State{ID: params.ID(), Version: 0, App: channel.NoApp(), Data: channel.NoData(),
		Allocation: channel.Allocation{Assets: gen.Assets(1), Backends: gen.Backends(1), Balances: channel.Balances{gen.Bals(2)}}}
	k := 1 + rt.Choice(2)
	for i := 0; i < k; i++ {
		w.Client.VerifEnableVer1Cache()
	}
	// the peer pays d with its first update
	to := init.Clone()
	to.Version = 1
	d := gen.Bal()
	peer := 1 - ownIdx
	rt.Assume(to.Balances[0][peer].Cmp(d) >= 0)
	to.Balances[0][peer] = new(big.Int).Sub(to.Balances[0][peer], d)
	to.Balances[0][ownIdx] = new(big.Int).Add(to.Balances[0][ownIdx], d)
	msg := &client.ChannelUpdateMsg{ChannelUpdate: client.ChannelUpdate{State: to, ActorIdx: channel.Index(peer)}, Sig: w.Sign(1, to)}
	decisions := []bool{rt.NondetBool(), rt.NondetBool(), rt.NondetBool()}
	invoked := 0
	uh := client.UpdateHandlerFunc(func(_ *channel.State, _ client.ChannelUpdate, r *client.UpdateResponder) {
		i := invoked
		invoked++
		ctx, cancel := context.WithTimeout(context.Background(), 1000000000)
		defer cancel()
		if i < len(decisions) && decisions[i] {
			_ = r.Accept(ctx)
		} else {
			_ = r.Reject(ctx, "no")
		}
	})
	go w.Client.VerifHandleChannelUpdate(uh, w.PeerWire, msg)
	rt.Quiesce()
	rt.Assert("c06.early.cached-not-handled", invoked == 0)
	// the channel is created, then the openings finish one after the other
	ch := w.Adopt(params, ownIdx, channel.Acting, init, nil)
	for i := 0; i < k; i++ {
		w.Client.VerifReleaseVer1Cache()
		rt.Quiesce()
	}
	rt.Reach("c06.early")
	acc, rej := 0, 0
	for _, m := range w.Bus.Messages() {
		switch m.(type) {
		case *client.ChannelUpdateAccMsg:
			acc++
		case *client.ChannelUpdateRejMsg:
			rej++
		}
	}
	rt.Assert("c06.early.handled-once", invoked == 1)
	rt.Assert("c06.early.one-response", acc+rej == 1)
	tx, ph, free := view(ch)
	rt.Assert("c06.early.ready", free && ph == channel.Acting)
	if decisions[0] {
		rt.Assert("c06.early.accepted", acc == 1 && tx.State.Version == 1 && tx.State.Equal(to) == nil)
	} else {
		rt.Assert("c06.early.rejected-stays-rejected", acc == 0 && tx.State.Version == 0 && tx.State.Equal(init) == nil)
	}
}

// VerifC06TwoChannels: sequential proposals by either party on either of two
// channels of the same client pair (which may be at the same version), with
// arbitrary decisions; optionally the responder's own context ends while its
// accept message is on the way. Each run must leave both channels on both
// sides in the reference state.
func VerifC06TwoChannels() {
	n := rt.Bound("n", 2)
	gen.K, gen.Exact = 1, true
	p := cw.NewPair()
	var cps [2]*chanPair
	var refs [2]*channel.State
	v0 := uint64(rt.NondetU8())
	for c := 0; c < 2; c++ {
		v := v0
		if c == 1 && rt.NondetBool() {
			v = uint64(rt.NondetU8())
		}
		_, st, chs := p.Open(int64(7+c), func(id channel.ID) *channel.State {
			return &channel.State{ID: id, Version: v, App: channel.NoApp(), Data: channel.NoData(),
				Allocation: channel.Allocation{Assets: gen.Assets(1), Backends: gen.Backends(1), Balances: channel.Balances{gen.Bals(2)}}}
		})
		cps[c] = &chanPair{init: st, ch: chs}
		refs[c] = st.Clone()
	}
	decisions := make([]bool, n)
	cancelAtSend := make([]bool, n)
	for k := range decisions {
		decisions[k] = rt.NondetBool()
		cancelAtSend[k] = rt.Bound("cancel", 1) == 1 && rt.NondetBool()
	}
	handled := 0
	var cancelCur func()
	cancelNow := false
	p.Net.Drop = func(e *wire.Envelope) bool {
		if _, ok := e.Msg.(*client.ChannelUpdateAccMsg); ok && cancelNow && cancelCur != nil {
			cancelCur() // the responder's context ends while its accept message is on the way
		}
		return false
	}
	uh := client.UpdateHandlerFunc(func(_ *channel.State, _ client.ChannelUpdate, r *client.UpdateResponder) {
		k := handled
		handled++
		ctx, cancel := context.WithCancel(context.Background())
		defer cancel()
		if k < n && decisions[k] {
			cancelCur, cancelNow = cancel, cancelAtSend[k]
			_ = r.Accept(ctx)
			cancelNow = false
		} else {
			_ = r.Reject(ctx, "no")
		}
	})
	for i := 0; i < 2; i++ {
		go p.C[i].Handle(noProposals{}, uh)
	}
	for step := 0; step < n; step++ {
		c, i := rt.Choice(2), rt.Choice(2)
		d := gen.Bal()
		rt.Assume(refs[c].Balances[0][i].Cmp(d) >= 0)
		k := handled
		ctx, cancel := context.WithTimeout(context.Background(), 5000000000)
		var proposed *channel.State
		err := cps[c].ch[i].Update(ctx, func(s *channel.State) {
			s.Balances[0][i] = new(big.Int).Sub(s.Balances[0][i], d)
			s.Balances[0][1-i] = new(big.Int).Add(s.Balances[0][1-i], d)
			proposed = s.Clone()
			proposed.Version++
		})
		cancel()
		rt.Quiesce()
		rt.Assert("c06.two.no-timeout", !isTimeout(err))
		rt.Assert("c06.two.handled-once", handled == k+1)
		accepted := k < n && decisions[k]
		if err == nil {
			rt.Reach("c06.two.success")
			rt.Assert("c06.two.success-only-if-accepted", accepted)
			refs[c] = proposed
		} else {
			rt.Reach("c06.two.refused")
			rt.Assert("c06.two.refusal-is-rejection", isRejection(err) && !accepted)
		}
		for cc := 0; cc < 2; cc++ {
			for q := 0; q < 2; q++ {
				tx, ph, free := view(cps[cc].ch[q])
				rt.Assert("c06.two.same-state", free && tx.State.Version == refs[cc].Version && tx.State.Equal(refs[cc]) == nil)
				rt.Assert("c06.two.fully-signed", fullySigned(p, cps[cc].ch[q]))
				rt.Assert("c06.two.ready", free && ph == channel.Acting)
			}
		}
	}
	rt.Reach("c06.two")
}
