// Package c15: values compare equal exactly when their encodings are
// identical; a signature binds one state and one signer.
package c15

import (
	"bytes"
	cryptorand "crypto/rand"

	simchannel "perun.network/go-perun/backend/sim/channel"
	simwallet "perun.network/go-perun/backend/sim/wallet"
	"perun.network/go-perun/channel"
	"perun.network/go-perun/internal/verifh/gen"
	rt "perun.network/go-perun/internal/verifrt"
	"perun.network/go-perun/wallet"
	"perun.network/go-perun/wire/perunio"
)

func enc(v perunio.Encoder) ([]byte, bool) {
	var buf bytes.Buffer
	err := v.Encode(&buf)
	return buf.Bytes(), err == nil
}

func setK() { gen.Setup() }

// idxLen maps a choice 0..n to an index-map length (0 = nil map).
func idxLen(c int) int { return c - 1 }

// VerifC15SubAlloc: SubAlloc.Equal(x, y) == nil  <=>  Encode(x) == Encode(y),
// for independent shapes.
func VerifC15SubAlloc() {
	setK()
	x := gen.SubAlloc(rt.Choice(3), rt.Choice(3))
	y := gen.SubAlloc(rt.Choice(3), rt.Choice(3))
	ex, okx := enc(x)
	ey, oky := enc(y)
	rt.Assume(okx && oky)
	rt.Reach("c15.suballoc")
	eq := x.Equal(&y) == nil
	rt.Assert("c15.suballoc.eq-iff-enc", eq == bytes.Equal(ex, ey))
}

// VerifC15Balances: Balances.Equal/AssertEqual vs encodings, rectangular
// matrices of independent dimensions 0..2 x 0..2.
func VerifC15Balances() {
	setK()
	x := gen.Balances(rt.Choice(3), rt.Choice(3))
	y := gen.Balances(rt.Choice(3), rt.Choice(3))
	ex, okx := enc(x)
	ey, oky := enc(y)
	rt.Assume(okx && oky)
	rt.Reach("c15.balances")
	eq := x.Equal(y)
	rt.Assert("c15.balances.eq-iff-enc", eq == bytes.Equal(ex, ey))
	rt.Assert("c15.balances.assert-agrees", eq == (x.AssertEqual(y) == nil))
}

// VerifC15SubAllocs: SubAllocsEqual on lists of 0..2 sub-allocations.
func VerifC15SubAllocs() {
	setK()
	mk := func() []channel.SubAlloc {
		n := rt.Choice(3)
		out := make([]channel.SubAlloc, n)
		for i := range out {
			out[i] = gen.SubAlloc(1, rt.Choice(2))
		}
		return out
	}
	x, y := mk(), mk()
	encAll := func(l []channel.SubAlloc) []byte {
		var buf bytes.Buffer
		for _, s := range l {
			rt.Assume(s.Encode(&buf) == nil)
		}
		return buf.Bytes()
	}
	ex, ey := encAll(x), encAll(y)
	rt.Reach("c15.suballocs")
	eq := channel.SubAllocsEqual(x, y)
	// the list length is transmitted separately (Allocation.Encode), so it is
	// part of the comparison here
	rt.Assert("c15.suballocs.eq-iff-enc", eq == (len(x) == len(y) && bytes.Equal(ex, ey)))
}

// VerifC15AllocationPair: Allocation.Equal vs encodings, independent small shapes.
func VerifC15AllocationPair() {
	setK()
	mk := func() channel.Allocation {
		var locked []int
		if rt.Choice(2) == 1 {
			locked = []int{idxLen(rt.Choice(3))}
		}
		a := gen.Allocation(1, 1+rt.Choice(2), locked)
		a.Backends[0] = wallet.BackendID(rt.NondetU32())
		return a
	}
	x, y := mk(), mk()
	ex, okx := enc(x)
	ey, oky := enc(y)
	rt.Assume(okx && oky)
	rt.Reach("c15.allocpair")
	eq := x.Equal(&y) == nil
	rt.Assert("c15.allocpair.eq-iff-enc", eq == bytes.Equal(ex, ey))
}

// stateShape draws a state with a in {1,2} assets, n in {1,2} participants,
// 0..1 sub-allocations (index map nil, empty or n entries), app kind 0/1.
func stateShape() *channel.State {
	a := 1 + rt.Choice(rt.Bound("maxA", 1))
	n := 1 + rt.Choice(2)
	var locked []int
	if rt.Choice(2) == 1 {
		locked = []int{[]int{-1, 0, n}[rt.Choice(3)]}
	}
	return gen.State(a, n, locked, rt.Choice(2))
}

// variant returns a copy of s in which one field, chosen by Choice, is
// replaced by a fresh arbitrary value (which may coincide with the old one).
func variant(s *channel.State) *channel.State {
	t := s.Clone()
	nLeaf := 12
	switch rt.Choice(nLeaf) {
	case 0:
		t.ID = gen.ID()
	case 1:
		t.Version = rt.NondetU64()
	case 2:
		t.IsFinal = rt.NondetBool()
	case 3:
		k := rt.Choice(2)
		t.App, t.Data = gen.App(k), gen.Data(k)
	case 4: // other data, also for a state without app (the encoder writes whatever data is there)
		t.Data = gen.Data(1)
	case 5:
		i, j := rt.Choice(len(t.Balances)), rt.Choice(len(t.Balances[0]))
		t.Balances[i][j] = gen.Bal()
	case 6:
		t.Assets[rt.Choice(len(t.Assets))] = gen.Asset()
	case 7:
		t.Backends[rt.Choice(len(t.Backends))] = wallet.BackendID(rt.NondetU32())
	case 8:
		rt.Assume(len(t.Locked) > 0)
		t.Locked[0].ID = gen.ID()
	case 9:
		rt.Assume(len(t.Locked) > 0)
		t.Locked[0].Bals[rt.Choice(len(t.Locked[0].Bals))] = gen.Bal()
	case 10:
		rt.Assume(len(t.Locked) > 0 && len(t.Locked[0].IndexMap) > 0)
		t.Locked[0].IndexMap[rt.Choice(len(t.Locked[0].IndexMap))] = channel.Index(rt.NondetU16())
	case 11:
		// dimension changes of the locked list / index map
		switch rt.Choice(3) {
		case 0:
			t.Locked = append(t.Locked, gen.SubAlloc(len(t.Assets), -1))
		case 1:
			rt.Assume(len(t.Locked) > 0)
			t.Locked = t.Locked[:len(t.Locked)-1]
		case 2:
			rt.Assume(len(t.Locked) > 0)
			t.Locked[0].IndexMap = gen.IndexMap(1 + len(t.Locked[0].IndexMap))
		}
	}
	return t
}

// VerifC15StateVariant: State.Equal and Allocation.Equal vs encodings for
// pairs that differ in (at most) one field.
func VerifC15StateVariant() {
	setK()
	s := stateShape()
	t := variant(s)
	es, oks := enc(s)
	et, okt := enc(t)
	rt.Assume(oks && okt)
	rt.Reach("c15.statevariant")
	eq := s.Equal(t) == nil
	rt.Assert("c15.state.eq-iff-enc", eq == bytes.Equal(es, et))
	ea, _ := enc(s.Allocation)
	eb, _ := enc(t.Allocation)
	aeq := s.Allocation.Equal(&t.Allocation) == nil
	rt.Assert("c15.alloc.eq-iff-enc", aeq == bytes.Equal(ea, eb))
}

// VerifC15Sig: Verify(addr_j, t, Sign(acc_i, s)) <=> i == j && s.Equal(t) == nil.
func VerifC15Sig() {
	setK()
	accs := []*simwallet.Account{simwallet.NewRandomAccount(cryptorand.Reader), simwallet.NewRandomAccount(cryptorand.Reader)}
	s := stateShape()
	t := variant(s)
	_, oks := enc(s)
	_, okt := enc(t)
	rt.Assume(oks && okt)
	i, j := rt.Choice(2), rt.Choice(2)
	sig, err := channel.Sign(accs[i], s, channel.TestBackendID)
	rt.Assert("c15.sig.sign-ok", err == nil)
	ok, err := channel.Verify(accs[j].Address(), t, sig)
	rt.Assert("c15.sig.verify-noerr", err == nil)
	rt.Reach("c15.sig")
	eq := s.Equal(t) == nil
	rt.Assert("c15.sig.binds", ok == (i == j && eq))
	// a second signature over the same state is also valid (no reliance on determinism)
	ok2, _ := channel.Verify(accs[i].Address(), s, sig)
	rt.Assert("c15.sig.self", ok2)
}

// VerifC15Asset: sim Asset.Equal <=> equal binary representation; BackendID.Equal.
func VerifC15Asset() {
	x := &simchannel.Asset{ID: rt.NondetU64()}
	y := &simchannel.Asset{ID: rt.NondetU64()}
	bx, _ := x.MarshalBinary()
	by, _ := y.MarshalBinary()
	rt.Reach("c15.asset")
	rt.Assert("c15.asset.eq-iff-bin", x.Equal(y) == bytes.Equal(bx, by))
	a, b := wallet.BackendID(rt.NondetU32()), wallet.BackendID(rt.NondetU32())
	rt.Assert("c15.backendid", a.Equal(b) == (a == b))
}
