// Package c19: clones are equal to, and share no mutable memory with, their
// originals.
package c19

import (
	"bytes"
	cryptorand "crypto/rand"
	"math/big"

	simchannel "perun.network/go-perun/backend/sim/channel"
	simwallet "perun.network/go-perun/backend/sim/wallet"
	"perun.network/go-perun/channel"
	"perun.network/go-perun/channel/persistence"
	"perun.network/go-perun/internal/verifh/gen"
	rt "perun.network/go-perun/internal/verifrt"
	"perun.network/go-perun/wallet"
)

// ---- an independent deep snapshot and comparator (leaf values)

type snapAlloc struct {
	bals     [][]*big.Int
	assets   []uint64
	backends []wallet.BackendID
	lockedID []channel.ID
	lockedB  [][]*big.Int
	lockedM  [][]channel.Index
	nilLock  bool
}

func copyBals(b []channel.Bal) []*big.Int {
	out := make([]*big.Int, len(b))
	for i, v := range b {
		out[i] = new(big.Int).Set(v)
	}
	return out
}

func snapOfAlloc(a *channel.Allocation) *snapAlloc {
	s := &snapAlloc{backends: append([]wallet.BackendID(nil), a.Backends...), nilLock: a.Locked == nil}
	for _, row := range a.Balances {
		s.bals = append(s.bals, copyBals(row))
	}
	for _, as := range a.Assets {
		s.assets = append(s.assets, as.(*simchannel.Asset).ID)
	}
	for _, l := range a.Locked {
		s.lockedID = append(s.lockedID, l.ID)
		s.lockedB = append(s.lockedB, copyBals(l.Bals))
		s.lockedM = append(s.lockedM, append([]channel.Index(nil), l.IndexMap...))
	}
	return s
}

func eqBigs(a []*big.Int, b []channel.Bal) bool {
	if len(a) != len(b) {
		return false
	}
	ok := true
	for i := range a {
		ok = rt.And(ok, rt.BigEq(a[i], b[i]))
	}
	return ok
}

func (s *snapAlloc) same(a *channel.Allocation) bool {
	if len(s.bals) != len(a.Balances) || len(s.assets) != len(a.Assets) || len(s.backends) != len(a.Backends) || len(s.lockedID) != len(a.Locked) {
		return false
	}
	ok := true
	for i := range s.bals {
		ok = rt.And(ok, eqBigs(s.bals[i], a.Balances[i]))
	}
	for i := range s.assets {
		as, isSim := a.Assets[i].(*simchannel.Asset)
		if !isSim {
			return false
		}
		ok = rt.And(ok, rt.And(s.assets[i] == as.ID, s.backends[i] == a.Backends[i]))
	}
	for i := range s.lockedID {
		l := a.Locked[i]
		if len(s.lockedM[i]) != len(l.IndexMap) {
			return false
		}
		ok = rt.And(ok, rt.And(s.lockedID[i] == l.ID, eqBigs(s.lockedB[i], l.Bals)))
		for j := range l.IndexMap {
			ok = rt.And(ok, s.lockedM[i][j] == l.IndexMap[j])
		}
	}
	return ok
}

type snapState struct {
	alloc   *snapAlloc
	id      channel.ID
	version uint64
	final   bool
	data    []byte
	app     channel.App
}

func snapOfState(s *channel.State) *snapState {
	d, _ := s.Data.MarshalBinary()
	return &snapState{alloc: snapOfAlloc(&s.Allocation), id: s.ID, version: s.Version, final: s.IsFinal, data: append([]byte(nil), d...), app: s.App}
}

func (s *snapState) same(t *channel.State) bool {
	d, _ := t.Data.MarshalBinary()
	ok := rt.And(s.id == t.ID, rt.And(s.version == t.Version, s.final == t.IsFinal))
	ok = rt.And(ok, bytes.Equal(s.data, d))
	return rt.And(ok, s.alloc.same(&t.Allocation))
}

type snapTx struct {
	state *snapState
	sigs  [][]byte
	nils  []bool
}

func snapOfTx(t channel.Transaction) *snapTx {
	s := &snapTx{}
	if t.State != nil {
		s.state = snapOfState(t.State)
	}
	for _, sg := range t.Sigs {
		s.sigs = append(s.sigs, append([]byte(nil), sg...))
		s.nils = append(s.nils, sg == nil)
	}
	return s
}

func (s *snapTx) same(t channel.Transaction) bool {
	if (s.state == nil) != (t.State == nil) || len(s.sigs) != len(t.Sigs) {
		return false
	}
	ok := true
	if s.state != nil {
		ok = s.state.same(t.State)
	}
	for i := range s.sigs {
		if s.nils[i] != (t.Sigs[i] == nil) {
			return false
		}
		ok = rt.And(ok, bytes.Equal(s.sigs[i], t.Sigs[i]))
	}
	return ok
}

type snapParams struct {
	dur     uint64
	nonce   *big.Int
	xs, ys  []*big.Int
	ledger  bool
	virtual bool
	aux     channel.Aux
	id      channel.ID
}

func snapOfParams(p *channel.Params) *snapParams {
	s := &snapParams{dur: p.ChallengeDuration, nonce: new(big.Int).Set(p.Nonce), ledger: p.LedgerChannel, virtual: p.VirtualChannel, aux: p.Aux, id: p.ID()}
	for _, part := range p.Parts {
		a := part[channel.TestBackendID].(*simwallet.Address)
		s.xs, s.ys = append(s.xs, new(big.Int).Set(a.X)), append(s.ys, new(big.Int).Set(a.Y))
	}
	return s
}

func (s *snapParams) same(p *channel.Params) bool {
	if len(s.xs) != len(p.Parts) {
		return false
	}
	ok := rt.And(s.dur == p.ChallengeDuration, rt.And(rt.BigEq(s.nonce, p.Nonce), rt.And(s.ledger == p.LedgerChannel, s.virtual == p.VirtualChannel)))
	ok = rt.And(ok, rt.And(s.aux == p.Aux, s.id == p.ID()))
	for i, part := range p.Parts {
		a, isSim := part[channel.TestBackendID].(*simwallet.Address)
		if !isSim || len(part) != 1 {
			return false
		}
		ok = rt.And(ok, rt.And(rt.BigEq(s.xs[i], a.X), rt.BigEq(s.ys[i], a.Y)))
	}
	return ok
}

// ---- generators

// shapeAlloc draws an allocation; nil/empty/non-empty for the optional slices.
func shapeAlloc() channel.Allocation {
	a := 1 + rt.Choice(rt.Bound("maxA", 1))
	n := 1 + rt.Choice(2)
	var locked []int
	switch rt.Choice(3) {
	case 1:
		locked = []int{}
	case 2:
		k := 1 + rt.Choice(rt.Bound("maxS", 1))
		for i := 0; i < k; i++ {
			locked = append(locked, []int{-1, 0, n}[rt.Choice(3)])
		}
	}
	return gen.Allocation(a, n, locked)
}

func shapeState() *channel.State {
	al := shapeAlloc()
	k := rt.Choice(2)
	return &channel.State{ID: gen.ID(), Version: rt.NondetU64(), App: gen.App(k), Data: gen.Data(k), IsFinal: rt.NondetBool(), Allocation: al}
}

func shapeSigs(n int) []wallet.Sig {
	switch rt.Choice(3) {
	case 0:
		return nil
	case 1:
		return make([]wallet.Sig, n)
	}
	out := make([]wallet.Sig, n)
	for i := range out {
		if rt.Choice(2) == 1 {
			out[i] = rt.NondetBytes(64)
		}
	}
	return out
}

func delta() *big.Int { return rt.NondetBigExact(1) } // 1..255, never zero

// mutateAlloc changes one mutable location reachable from a, chosen by Choice.
func mutateAlloc(a *channel.Allocation) {
	switch rt.Choice(9) {
	case 0: // a balance, in place
		b := a.Balances[rt.Choice(len(a.Balances))]
		v := b[rt.Choice(len(b))]
		v.Add(v, delta())
	case 1: // a balance slot
		b := a.Balances[rt.Choice(len(a.Balances))]
		b[rt.Choice(len(b))] = gen.Bal()
	case 2: // a whole row
		a.Balances[rt.Choice(len(a.Balances))] = gen.Bals(1)
	case 3: // asset / backend slot
		i := rt.Choice(len(a.Assets))
		a.Assets[i], a.Backends[i] = gen.Asset(), wallet.BackendID(rt.NondetU32())
	case 4:
		rt.Assume(len(a.Locked) > 0)
		l := &a.Locked[rt.Choice(len(a.Locked))]
		v := l.Bals[rt.Choice(len(l.Bals))]
		v.Add(v, delta())
	case 5:
		rt.Assume(len(a.Locked) > 0)
		l := &a.Locked[rt.Choice(len(a.Locked))]
		l.Bals[rt.Choice(len(l.Bals))] = gen.Bal()
	case 6:
		rt.Assume(len(a.Locked) > 0)
		l := &a.Locked[rt.Choice(len(a.Locked))]
		rt.Assume(len(l.IndexMap) > 0)
		l.IndexMap[rt.Choice(len(l.IndexMap))] += 1 + channel.Index(rt.NondetU8())
	case 7:
		rt.Assume(len(a.Locked) > 0)
		a.Locked[rt.Choice(len(a.Locked))].ID[rt.Choice(32)] ^= 1 + rt.NondetU8()/2
	case 8:
		rt.Assume(len(a.Locked) > 0)
		a.Locked[rt.Choice(len(a.Locked))] = gen.SubAlloc(len(a.Assets), 1)
	}
}

func mutateState(s *channel.State) {
	switch rt.Choice(4) {
	case 0:
		mutateAlloc(&s.Allocation)
	case 1:
		s.Version += 1 + uint64(rt.NondetU8())
		s.IsFinal = !s.IsFinal
		s.ID[rt.Choice(32)] ^= 0x55
	case 2: // app data, in place
		op, ok := s.Data.(*channel.MockOp)
		rt.Assume(ok)
		*op += 1 + channel.MockOp(rt.NondetU8())
	case 3:
		s.Data = channel.NewMockOp(channel.MockOp(rt.NondetU64()))
	}
}

func mutateSigs(sigs []wallet.Sig) {
	rt.Assume(len(sigs) > 0)
	i := rt.Choice(len(sigs))
	if rt.Choice(2) == 0 && sigs[i] != nil {
		sigs[i][rt.Choice(64)] ^= 0xff
	} else {
		sigs[i] = rt.NondetBytes(64)
	}
}

func mutateTx(t channel.Transaction) {
	if rt.Choice(2) == 0 {
		rt.Assume(t.State != nil)
		mutateState(t.State)
	} else {
		mutateSigs(t.Sigs)
	}
}

func mutateParams(p *channel.Params) {
	switch rt.Choice(4) {
	case 0:
		p.Nonce.Add(p.Nonce, delta())
	case 1:
		a := p.Parts[rt.Choice(len(p.Parts))][channel.TestBackendID].(*simwallet.Address)
		a.X.Add(a.X, delta())
	case 2:
		p.Parts[rt.Choice(len(p.Parts))][channel.TestBackendID] = gen.Address(1)
	case 3:
		p.Parts[rt.Choice(len(p.Parts))] = map[wallet.BackendID]wallet.Address{channel.TestBackendID: gen.Address(1)}
	}
}

// side draws which of (original, clone) is mutated; the other is observed.
func side() bool { return rt.Choice(2) == 0 }

// VerifC19Values: Balances, Allocation, State, Transaction and the slice helpers.
// spare gives every slice reachable from a spare capacity (as slices have
// after elements were removed from them, e.g. by RemoveSubAlloc): a clone that
// keeps the backing array of a slice is then caught by appending on both sides.
func spare(a *channel.Allocation) {
	extra := gen.SubAlloc(len(a.Assets), 1)
	if a.Locked != nil || rt.NondetBool() {
		a.AddSubAlloc(extra)
		if err := a.RemoveSubAlloc(extra); err != nil { // (the real API: leaves len-1, cap >= len)
			rt.Assume(false)
		}
	}
	for i := range a.Balances {
		a.Balances[i] = append(a.Balances[i], gen.Bal())[:len(a.Balances[i])]
	}
	a.Balances = append(a.Balances, nil)[:len(a.Balances)]
	a.Assets = append(a.Assets, gen.Asset())[:len(a.Assets)]
	a.Backends = append(a.Backends, 0)[:len(a.Backends)]
}

// appendBoth appends different elements to every slice of x and of y and checks
// that neither side sees the other's element.
func appendBoth(x, y *channel.Allocation) {
	sx, sy := gen.SubAlloc(len(x.Assets), 1), gen.SubAlloc(len(x.Assets), 1)
	sx.ID[0], sy.ID[0] = 1, 2
	x.AddSubAlloc(sx)
	y.AddSubAlloc(sy)
	rt.Assert("c19.spare.locked", x.Locked[len(x.Locked)-1].ID[0] == 1 && y.Locked[len(y.Locked)-1].ID[0] == 2)
	for i := range x.Balances {
		bx, by := big.NewInt(1), big.NewInt(2)
		x.Balances[i] = append(x.Balances[i], bx)
		y.Balances[i] = append(y.Balances[i], by)
		rt.Assert("c19.spare.balances", x.Balances[i][len(x.Balances[i])-1] == bx && y.Balances[i][len(y.Balances[i])-1] == by)
	}
	ax, ay := gen.Asset(), gen.Asset()
	x.Assets, y.Assets = append(x.Assets, ax), append(y.Assets, ay)
	rt.Assert("c19.spare.assets", x.Assets[len(x.Assets)-1] == ax && y.Assets[len(y.Assets)-1] == ay)
	x.Backends, y.Backends = append(x.Backends, 7), append(y.Backends, 8)
	rt.Assert("c19.spare.backends", x.Backends[len(x.Backends)-1] == 7 && y.Backends[len(y.Backends)-1] == 8)
	rx, ry := gen.Bals(1), gen.Bals(1)
	x.Balances, y.Balances = append(x.Balances, rx), append(y.Balances, ry)
	rt.Assert("c19.spare.rows", &x.Balances[len(x.Balances)-1][0] == &rx[0] && &y.Balances[len(y.Balances)-1][0] == &ry[0])
}

func VerifC19Values() {
	gen.Setup()
	switch rt.Choice(6) {
	case 5: // slices with spare capacity (after removals): Allocation and State clones
		x := shapeAlloc()
		spare(&x)
		if rt.NondetBool() {
			y := x.Clone()
			rt.Assert("c19.spare.equal", x.Equal(&y) == nil)
			appendBoth(&x, &y)
		} else {
			sx := &channel.State{ID: gen.ID(), Version: rt.NondetU64(), App: channel.NoApp(), Data: channel.NoData(), Allocation: x}
			sy := sx.Clone()
			rt.Assert("c19.spare.equal", sx.Equal(sy) == nil)
			appendBoth(&sx.Allocation, &sy.Allocation)
		}
		rt.Reach("c19.spare")
	case 0: // Allocation (also covers Balances.Clone, CloneBals, CloneIndexMap)
		x := shapeAlloc()
		y := x.Clone()
		rt.Assert("c19.alloc.equal", x.Equal(&y) == nil && snapOfAlloc(&x).same(&y))
		rt.Assert("c19.alloc.nil-kept", (x.Locked == nil) == (y.Locked == nil))
		if side() {
			s := snapOfAlloc(&y)
			mutateAlloc(&x)
			rt.Assert("c19.alloc.separate", s.same(&y))
		} else {
			s := snapOfAlloc(&x)
			mutateAlloc(&y)
			rt.Assert("c19.alloc.separate", s.same(&x))
		}
	case 1: // Balances
		x := gen.Balances(rt.Choice(3), rt.Choice(3))
		if rt.Choice(4) == 0 {
			x = nil
		}
		y := x.Clone()
		rt.Assert("c19.balances.equal", x.Equal(y) && (x == nil) == (y == nil))
		rt.Assume(len(x) > 0 && len(x[0]) > 0)
		v := x[rt.Choice(len(x))]
		before := new(big.Int).Set(y[0][0])
		if rt.Choice(2) == 0 {
			v[0].Add(v[0], delta())
		} else {
			v[0] = gen.Bal()
		}
		rt.Assert("c19.balances.separate", rt.BigEq(before, y[0][0]) || len(x) > 1)
	case 2: // State
		x := shapeState()
		y := x.Clone()
		rt.Assert("c19.state.equal", x.Equal(y) == nil && snapOfState(x).same(y))
		rt.Assert("c19.state.app-shared", x.App == y.App)
		if side() {
			s := snapOfState(y)
			mutateState(x)
			rt.Assert("c19.state.separate", s.same(y))
		} else {
			s := snapOfState(x)
			mutateState(y)
			rt.Assert("c19.state.separate", s.same(x))
		}
	case 3: // Transaction with any subset of signatures, with or without state
		var x channel.Transaction
		if rt.Choice(4) != 0 {
			x.State = shapeState()
			x.Sigs = shapeSigs(x.State.NumParts())
		}
		y := x.Clone()
		rt.Assert("c19.tx.equal", snapOfTx(x).same(y))
		if side() {
			s := snapOfTx(y)
			mutateTx(x)
			rt.Assert("c19.tx.separate", s.same(y))
		} else {
			s := snapOfTx(x)
			mutateTx(y)
			rt.Assert("c19.tx.separate", s.same(x))
		}
	case 4: // CloneSigs
		x := shapeSigs(2)
		y := wallet.CloneSigs(x)
		tx, ty := channel.Transaction{Sigs: x}, channel.Transaction{Sigs: y}
		rt.Assert("c19.sigs.equal", snapOfTx(tx).same(ty) && (x == nil) == (y == nil))
		s := snapOfTx(ty)
		mutateSigs(x)
		rt.Assert("c19.sigs.separate", s.same(ty))
	}
	rt.Reach("c19.values")
}

func mkParams() *channel.Params {
	n := 2 + rt.Choice(2)
	parts := make([]map[wallet.BackendID]wallet.Address, n)
	for i := range parts {
		parts[i] = map[wallet.BackendID]wallet.Address{channel.TestBackendID: gen.Address(1)}
	}
	var aux channel.Aux
	aux[3] = rt.NondetU8()
	p, err := channel.NewParams(1+uint64(rt.NondetU8()), parts, gen.App(rt.Choice(2)), gen.BigK(1), rt.NondetBool(), rt.NondetBool(), aux)
	rt.Assume(err == nil)
	return p
}

// VerifC19Params: Params.Clone.
func VerifC19Params() {
	gen.Setup()
	x := mkParams()
	y := x.Clone()
	rt.Assert("c19.params.equal", snapOfParams(x).same(y) && x.App == y.App)
	if side() {
		s := snapOfParams(y)
		mutateParams(x)
		rt.Assert("c19.params.separate", s.same(y))
	} else {
		s := snapOfParams(x)
		mutateParams(y)
		rt.Assert("c19.params.separate", s.same(x))
	}
	rt.Reach("c19.params")
}

type machSnap struct {
	phase  channel.Phase
	idx    channel.Index
	stg    *snapTx
	cur    *snapTx
	params *snapParams
}

func snapOfSource(m channel.Source) *machSnap {
	return &machSnap{phase: m.Phase(), idx: m.Idx(), stg: snapOfTx(m.StagingTX()), cur: snapOfTx(m.CurrentTX()), params: snapOfParams(m.Params())}
}

func (s *machSnap) same(m channel.Source) bool {
	if s.phase != m.Phase() || s.idx != m.Idx() {
		return false
	}
	return rt.And(s.stg.same(m.StagingTX()), rt.And(s.cur.same(m.CurrentTX()), s.params.same(m.Params())))
}

// mutateSource changes one mutable location reachable through the accessors.
func mutateSource(m channel.Source) {
	switch rt.Choice(3) {
	case 0:
		mutateTx(m.StagingTX())
	case 1:
		mutateTx(m.CurrentTX())
	case 2:
		mutateParams(m.Params())
	}
}

func anySource(acc *simwallet.Account) (*gen.Source, map[wallet.BackendID]wallet.Account) {
	peer := gen.Address(1)
	parts := []map[wallet.BackendID]wallet.Address{{channel.TestBackendID: acc.Address()}, {channel.TestBackendID: peer}}
	p, err := channel.NewParams(1+uint64(rt.NondetU8()), parts, channel.NewMockApp(gen.AppID(1)), gen.BigK(1), true, false, channel.Aux{})
	rt.Assume(err == nil)
	src := &gen.Source{ParamsV: p, PhaseV: channel.Phase(rt.NondetU8() % 12)}
	mk := func(kind int) channel.Transaction {
		var t channel.Transaction
		if kind != 0 {
			t.State = gen.State(1, 2, nil, 1)
			t.State.App = p.App
			if kind == 2 {
				t.State.Locked = []channel.SubAlloc{gen.SubAlloc(1, 2)}
				t.Sigs = []wallet.Sig{rt.NondetBytes(64), nil}
			} else {
				t.Sigs = shapeSigs(2)
			}
		}
		return t
	}
	// one of the two transactions gets the full shape variety, the other a fixed shape
	if rt.Choice(2) == 0 {
		src.Staging, src.Current = mk(rt.Choice(3)), mk(2)
	} else {
		src.Staging, src.Current = mk(2), mk(rt.Choice(3))
	}
	return src, map[wallet.BackendID]wallet.Account{channel.TestBackendID: acc}
}

// VerifC19Machines: StateMachine.Clone, ActionMachine.Clone, CloneSource,
// FromSource for machines in arbitrary states.
func VerifC19Machines() {
	gen.Setup()
	acc := simwallet.NewRandomAccount(cryptorand.Reader)
	src, accs := anySource(acc)
	var x, y channel.Source
	switch rt.Choice(4) {
	case 0:
		m, err := channel.RestoreStateMachine(accs, src)
		rt.Assume(err == nil)
		x, y = m, m.Clone()
	case 1:
		m, err := channel.NewActionMachine(accs, *src.ParamsV)
		rt.Assume(err == nil)
		x, y = m, m.Clone()
	case 2:
		x, y = src, persistence.CloneSource(src)
	case 3:
		x, y = src, persistence.FromSource(src, nil, nil)
	}
	rt.Assert("c19.machine.equal", snapOfSource(x).same(y))
	if side() {
		s := snapOfSource(y)
		mutateSource(x)
		rt.Assert("c19.machine.separate", s.same(y))
	} else {
		s := snapOfSource(x)
		mutateSource(y)
		rt.Assert("c19.machine.separate", s.same(x))
	}
	rt.Reach("c19.machines")
}

// VerifC19History: a machine with a transaction history (reached through the
// real API: one full update cycle) and its clone share no memory in the
// history either (read through an overlay-only accessor).
func VerifC19History() {
	gen.Setup()
	own, peer := simwallet.NewRandomAccount(cryptorand.Reader), simwallet.NewRandomAccount(cryptorand.Reader)
	parts := []map[wallet.BackendID]wallet.Address{{channel.TestBackendID: own.Address()}, {channel.TestBackendID: peer.Address()}}
	p, err := channel.NewParams(1+uint64(rt.NondetU8()), parts, channel.NoApp(), gen.BigK(1), true, false, channel.Aux{})
	rt.Assume(err == nil)
	cur := gen.State(1, 2, nil, 0)
	cur.ID, cur.IsFinal = p.ID(), false
	rt.Assume(cur.Version < 1<<62)
	if rt.NondetBool() {
		cur.Locked = []channel.SubAlloc{gen.SubAlloc(1, 2)}
	}
	sign := func(a *simwallet.Account, s *channel.State) wallet.Sig {
		sig, err := channel.Sign(a, s, channel.TestBackendID)
		rt.Assume(err == nil)
		return sig
	}
	src := &gen.Source{ParamsV: p, PhaseV: channel.Acting, Current: channel.Transaction{State: cur, Sigs: []wallet.Sig{sign(own, cur), sign(peer, cur)}}}
	m, err := channel.RestoreStateMachine(map[wallet.BackendID]wallet.Account{channel.TestBackendID: own}, src)
	rt.Assume(err == nil)
	to := cur.Clone()
	to.Version++
	rt.Assume(m.Update(to, 0) == nil)
	_, err = m.Sig()
	rt.Assume(err == nil)
	rt.Assume(m.AddSig(1, sign(peer, to)) == nil)
	rt.Assume(m.EnableUpdate() == nil)
	y := m.Clone()
	hx, hy := m.VerifPrevTXs(), y.VerifPrevTXs()
	rt.Reach("c19.history")
	rt.Assert("c19.history.kept", len(hx) == len(hy) && len(hx) >= 1)
	k := len(hx) - 1
	rt.Assert("c19.history.equal", snapOfTx(hx[k]).same(hy[k]))
	if side() {
		s := snapOfTx(hy[k])
		mutateTx(hx[k])
		rt.Assert("c19.history.separate", s.same(hy[k]))
	} else {
		s := snapOfTx(hx[k])
		mutateTx(hy[k])
		rt.Assert("c19.history.separate", s.same(hx[k]))
	}
}
