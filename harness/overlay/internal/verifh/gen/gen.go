// Package gen builds values of go-perun's types whose shapes are drawn with
// verifrt.Choice and whose leaves are nondeterministic. It contains no model
// of go-perun code.
package gen

import (
	"math/big"

	_ "perun.network/go-perun/backend/sim" // registers the sim backends as the tests do
	simchannel "perun.network/go-perun/backend/sim/channel"
	simwallet "perun.network/go-perun/backend/sim/wallet"
	"perun.network/go-perun/channel"
	rt "perun.network/go-perun/internal/verifrt"
	"perun.network/go-perun/wallet"
)

// K is the bound on the byte length of encoded amounts (set by harnesses).
var K = 1

// Exact makes Bal return amounts of exactly K bytes (no fork on the encoded
// length); otherwise amounts range over all lengths 0..K.
var Exact = false

// Bal returns an arbitrary amount below 256^K.
func Bal() *big.Int {
	if Exact {
		return rt.NondetBigExact(K)
	}
	return rt.NondetBig(K)
}

// Setup reads the tier's bound parameters K and exact.
func Setup() {
	K = rt.Bound("K", 1)
	Exact = rt.Bound("exact", 0) == 1
}

// Bals returns n arbitrary amounts.
func Bals(n int) []channel.Bal {
	out := make([]channel.Bal, n)
	for i := range out {
		out[i] = Bal()
	}
	return out
}

// ID returns an arbitrary 32-byte identifier.
func ID() (id channel.ID) {
	for i := range id {
		id[i] = rt.NondetU8()
	}
	return id
}

// IDLike returns either ref itself or an arbitrary identifier. (An arbitrary
// identifier alone also covers "equal to ref" symbolically, but a
// counterexample that needs equality could not be replayed natively when ref
// is a hash over key material that is random in a native run.)
func IDLike(ref channel.ID) channel.ID {
	if rt.NondetBool() {
		return ref
	}
	return ID()
}

// Balances returns an a x n matrix of arbitrary amounts.
func Balances(a, n int) channel.Balances {
	out := make(channel.Balances, a)
	for i := range out {
		out[i] = Bals(n)
	}
	return out
}

// IndexMap returns n arbitrary indices.
func IndexMap(n int) []channel.Index {
	out := make([]channel.Index, n)
	for i := range out {
		out[i] = channel.Index(rt.NondetU16())
	}
	return out
}

// SubAlloc returns a sub-allocation with nb balances and an index map of
// length nidx (nidx < 0: nil map).
func SubAlloc(nb, nidx int) channel.SubAlloc {
	s := channel.SubAlloc{ID: ID(), Bals: Bals(nb)}
	if nidx >= 0 {
		s.IndexMap = IndexMap(nidx)
	}
	return s
}

// Asset returns a sim asset with an arbitrary id.
func Asset() channel.Asset { return &simchannel.Asset{ID: rt.NondetU64()} }

// Assets returns n arbitrary sim assets.
func Assets(n int) []channel.Asset {
	out := make([]channel.Asset, n)
	for i := range out {
		out[i] = Asset()
	}
	return out
}

// Backends returns n backend ids equal to the sim backend's.
func Backends(n int) []wallet.BackendID {
	out := make([]wallet.BackendID, n)
	for i := range out {
		out[i] = channel.TestBackendID
	}
	return out
}

// Allocation returns an allocation with a assets, n participants and the
// given sub-allocation shapes (index-map lengths; -1: nil map).
func Allocation(a, n int, locked []int) channel.Allocation {
	al := channel.Allocation{
		Balances: Balances(a, n),
		Backends: Backends(a),
		Assets:   Assets(a),
	}
	if locked != nil {
		al.Locked = make([]channel.SubAlloc, len(locked))
		for i, nidx := range locked {
			al.Locked[i] = SubAlloc(a, nidx)
		}
	}
	return al
}

// Address returns a sim address with arbitrary coordinates below 256^k.
func Address(k int) *simwallet.Address {
	if Exact {
		return &simwallet.Address{X: rt.NondetBigExact(k), Y: rt.NondetBigExact(k)}
	}
	return &simwallet.Address{X: rt.NondetBig(k), Y: rt.NondetBig(k)}
}

// BigK returns an arbitrary integer below 256^k (exactly k bytes in exact mode).
func BigK(k int) *big.Int {
	if Exact {
		return rt.NondetBigExact(k)
	}
	return rt.NondetBig(k)
}

// AppIDOf wraps an address as a sim app identifier.
func AppIDOf(a *simwallet.Address) channel.AppID { return simchannel.AppID{Address: a} }

// AppID returns a sim app identifier with arbitrary coordinates.
func AppID(k int) channel.AppID { return simchannel.AppID{Address: Address(k)} }

// App draws an app: 0 = NoApp, 1 = a MockApp with arbitrary definition.
func App(kind int) channel.App {
	if kind == 0 {
		return channel.NoApp()
	}
	return channel.NewMockApp(AppID(1))
}

// Data draws app data matching the app kind.
func Data(kind int) channel.Data {
	if kind == 0 {
		return channel.NoData()
	}
	op := channel.MockOp(rt.NondetU64())
	return &op
}

// State returns a state of the given shape with arbitrary leaves.
func State(a, n int, locked []int, appKind int) *channel.State {
	return &channel.State{
		ID:         ID(),
		Version:    rt.NondetU64(),
		App:        App(appKind),
		Allocation: Allocation(a, n, locked),
		Data:       Data(appKind),
		IsFinal:    rt.NondetBool(),
	}
}

// Source is a channel.Source built directly by a harness; RestoreStateMachine
// turns it into a machine in an arbitrary state.
type Source struct {
	IdxV     channel.Index
	ParamsV  *channel.Params
	Staging  channel.Transaction
	Current  channel.Transaction
	PhaseV   channel.Phase
}

// ID implements channel.Source.
func (s *Source) ID() channel.ID { return s.ParamsV.ID() }

// Idx implements channel.Source.
func (s *Source) Idx() channel.Index { return s.IdxV }

// Params implements channel.Source.
func (s *Source) Params() *channel.Params { return s.ParamsV }

// StagingTX implements channel.Source.
func (s *Source) StagingTX() channel.Transaction { return s.Staging }

// CurrentTX implements channel.Source.
func (s *Source) CurrentTX() channel.Transaction { return s.Current }

// Phase implements channel.Source.
func (s *Source) Phase() channel.Phase { return s.PhaseV }

// Nats returns n arbitrary non-negative integers of any size.
func Nats(n int) []channel.Bal {
	out := make([]channel.Bal, n)
	for i := range out {
		out[i] = rt.NondetNat()
	}
	return out
}

// Ints returns n arbitrary integers of any size and sign.
func Ints(n int) []channel.Bal {
	out := make([]channel.Bal, n)
	for i := range out {
		out[i] = rt.NondetInt()
	}
	return out
}

// SumBals adds up a balance row (harness arithmetic for reference predicates).
func SumBals(bs []channel.Bal) *big.Int {
	s := new(big.Int)
	for _, b := range bs {
		s.Add(s, b)
	}
	return s
}
