// Package c18: the message relay hands every envelope over exactly once.
package c18

import (
	"sync"

	rt "perun.network/go-perun/internal/verifrt"
	"perun.network/go-perun/wire"
	psync "polycry.pt/poly-go/sync"
)

const (
	nCons  = 2 // consumers
	nCache = 2 // cache predicates
	nEnv   = 3 // envelopes
)

// consumer records what it is handed.
type consumer struct {
	psync.Closer
	id  int
	mu  sync.Mutex
	got []int
}

func (c *consumer) Put(e *wire.Envelope) {
	c.mu.Lock()
	c.got = append(c.got, envID(e))
	c.mu.Unlock()
}

type idMsg struct{ id int }

func (idMsg) Type() wire.Type { return wire.Ping }

func envID(e *wire.Envelope) int { return e.Msg.(idMsg).id }

type opKind int

const (
	opPut opKind = iota
	opSubscribe
	opCache
	opRelease
	opCloseConsumer
	numOps
)

type op struct {
	kind opKind
	arg  int
}

type world struct {
	relay    *wire.Relay
	cons     [nCons]*consumer
	envs     [nEnv]*wire.Envelope
	subPred  [nCons][nEnv]bool  // verdict of consumer i's predicate on envelope m
	cachePr  [nCache][nEnv]bool // verdict of cache predicate k on envelope m
	cachePs  [nCache]wire.Predicate
	mu       sync.Mutex
	order    []op // operations in the order they took effect
	deflt    []int
	subErr   [nCons]bool
	putCount [nEnv]int
}

func newWorld() *world {
	w := &world{relay: wire.NewRelay()}
	for i := range w.cons {
		w.cons[i] = &consumer{id: i}
		for m := 0; m < nEnv; m++ {
			w.subPred[i][m] = rt.NondetBool()
		}
	}
	for k := range w.cachePs {
		k := k
		for m := 0; m < nEnv; m++ {
			w.cachePr[k][m] = rt.NondetBool()
		}
		w.cachePs[k] = func(e *wire.Envelope) bool {
			// a schedule point inside the relay's critical section: whatever the
			// relay's locking lets run here is explored
			rt.SchedPoint("cache-predicate")
			return w.cachePr[k][envID(e)]
		}
	}
	for m := range w.envs {
		w.envs[m] = &wire.Envelope{Msg: idMsg{m}}
	}
	w.relay.SetDefaultMsgHandler(func(e *wire.Envelope) {
		w.mu.Lock()
		w.deflt = append(w.deflt, envID(e))
		w.mu.Unlock()
	})
	return w
}

func (w *world) record(o op) {
	w.mu.Lock()
	w.order = append(w.order, o)
	w.mu.Unlock()
}

// do performs one operation; the record is taken immediately before the call,
// which (operations being atomic under the relay's lock) is the order in which
// the operations take effect.
func (w *world) do(o op) {
	switch o.kind {
	case opPut:
		w.record(o)
		w.relay.Put(w.envs[o.arg])
	case opSubscribe:
		i := o.arg
		w.record(o)
		err := w.relay.Subscribe(w.cons[i], func(e *wire.Envelope) bool { return w.subPred[i][envID(e)] })
		if err != nil {
			w.mu.Lock()
			w.subErr[i] = true
			w.mu.Unlock()
		}
	case opCache:
		w.record(o)
		w.relay.Cache(&w.cachePs[o.arg])
	case opRelease:
		w.record(o)
		w.relay.ReleaseCache(&w.cachePs[o.arg])
	case opCloseConsumer:
		w.record(o)
		w.cons[o.arg].Close()
	}
}

// received returns a copy of what the consumer got so far.
func (c *consumer) received() []int {
	c.mu.Lock()
	defer c.mu.Unlock()
	return append([]int(nil), c.got...)
}

func count(xs []int, v int) int {
	n := 0
	for _, x := range xs {
		if x == v {
			n++
		}
	}
	return n
}

// check replays the recorded order on the reference model (Appendix A.6) and
// compares the deliveries observed at quiescence.
func (w *world) check() {
	// Final drain: a fresh consumer that accepts everything must receive
	// exactly what the reference still holds in the cache (nothing may have
	// left the cache other than to a subscriber).
	drain := &consumer{id: -1}
	derr := w.relay.Subscribe(drain, func(*wire.Envelope) bool { return true })
	rt.Quiesce()
	drained := drain.received()
	rt.Assert("c18.drain.subscribed", derr == nil)
	var gotBy [nCons][]int
	for i := range gotBy {
		gotBy[i] = w.cons[i].received()
	}
	w.mu.Lock()
	deflt := append([]int(nil), w.deflt...)
	order := append([]op(nil), w.order...)
	w.mu.Unlock()
	type sub struct {
		c      int
		closed bool
	}
	var subs []sub
	subscribed := [nCons]bool{}
	closedC := [nCons]bool{}
	cachePreds := [nCache]bool{}
	var cached []int
	// expected deliveries: min and max per (envelope, consumer); default handler
	var minD, maxD [nEnv][nCons]int
	var wantDef [nEnv]int
	var maxDef [nEnv]int
	for _, o := range order {
		switch o.kind {
		case opPut:
			m := o.arg
			found, maybe := false, false
			for _, s := range subs {
				if w.subPred[s.c][m] {
					if s.closed {
						// closed, removal pending: may or may not still be subscribed
						maxD[m][s.c]++
						maybe = true
					} else {
						minD[m][s.c]++
						maxD[m][s.c]++
						found = true
					}
				}
			}
			if found {
				continue
			}
			hit := false
			for k := range cachePreds {
				if cachePreds[k] && w.cachePr[k][m] {
					hit = true
				}
			}
			if maybe {
				// either the closed consumer got it, or the fallback path ran
				if hit {
					cached = append(cached, -m-1) // possibly cached
				} else {
					maxDef[m]++
				}
				continue
			}
			if hit {
				cached = append(cached, m)
			} else {
				wantDef[m]++
				maxDef[m]++
			}
		case opSubscribe:
			i := o.arg
			if subscribed[i] || closedC[i] {
				continue // duplicate subscription is a documented panic: not drawn; closed consumer: refused
			}
			subscribed[i] = true
			subs = append(subs, sub{c: i})
			var rest []int
			for _, m := range cached {
				id, sure := m, true
				if m < 0 {
					id, sure = -m-1, false
				}
				if w.subPred[i][id] {
					if sure {
						minD[id][i]++
					}
					maxD[id][i]++
				} else {
					rest = append(rest, m)
				}
			}
			cached = rest
		case opCache:
			cachePreds[o.arg] = true
		case opRelease:
			cachePreds[o.arg] = false
		case opCloseConsumer:
			closedC[o.arg] = true
			for j := range subs {
				if subs[j].c == o.arg {
					subs[j].closed = true
				}
			}
		}
	}
	for m := 0; m < nEnv; m++ {
		for i := 0; i < nCons; i++ {
			got := count(gotBy[i], m)
			rt.Assert("c18.delivered-at-least", got >= minD[m][i])
			rt.Assert("c18.delivered-at-most", got <= maxD[m][i])
			if got > 0 {
				rt.Assert("c18.predicate-respected", w.subPred[i][m])
			}
		}
		d := count(deflt, m)
		rt.Assert("c18.default-handler", d >= wantDef[m] && d <= maxDef[m])
		// nothing is lost or duplicated: every put is accounted for exactly once
		// per destination class
		total := d
		for i := 0; i < nCons; i++ {
			total += count(gotBy[i], m)
		}
		stillCached := 0
		for _, c := range cached {
			if c == m || c == -m-1 {
				stillCached++
			}
		}
		rt.Assert("c18.not-lost", w.putCount[m] == 0 || total+stillCached >= 1)
		sure, maybe := 0, 0
		for _, c := range cached {
			if c == m {
				sure++
			}
			if c == -m-1 {
				maybe++
			}
		}
		dn := count(drained, m)
		rt.Assert("c18.drain.cache-content", dn >= sure && dn <= sure+maybe)
	}
}

func (w *world) drawOp() op {
	k := opKind(rt.Choice(int(numOps)))
	switch k {
	case opPut:
		m := rt.Choice(nEnv)
		return op{k, m}
	case opSubscribe, opCloseConsumer:
		return op{k, rt.Choice(nCons)}
	}
	return op{k, rt.Choice(nCache)}
}

// valid filters programs with documented panics (duplicate subscription) and
// keeps each envelope put at most once (identity of envelopes = their id).
func (w *world) valid(prog [][]op) bool {
	subs := [nCons]int{}
	for _, th := range prog {
		for _, o := range th {
			if o.kind == opSubscribe {
				subs[o.arg]++
			}
			if o.kind == opPut {
				w.putCount[o.arg]++
			}
		}
	}
	for _, n := range subs {
		if n > 1 {
			return false
		}
	}
	for _, n := range w.putCount {
		if n > 1 {
			return false
		}
	}
	return true
}

// VerifC18Sequential: all histories of h operations on one relay.
func VerifC18Sequential() {
	w := newWorld()
	h := rt.Bound("h", 4)
	prog := make([]op, h)
	for i := range prog {
		prog[i] = w.drawOp()
	}
	rt.Assume(w.valid([][]op{prog}))
	for _, o := range prog {
		w.do(o)
		rt.Quiesce() // asynchronous deliveries and removals of this operation
	}
	w.check()
	rt.Reach("c18.seq")
}

// VerifC18Concurrent: T goroutines with up to k operations each; all
// interleavings the scheduler bound admits; compared at quiescence.
func VerifC18Concurrent() {
	w := newWorld()
	t, k := rt.Bound("T", 2), rt.Bound("k", 2)
	prog := make([][]op, t)
	for i := range prog {
		for j := 0; j < k; j++ {
			prog[i] = append(prog[i], w.drawOp())
		}
	}
	rt.Assume(w.valid(prog))
	var wg sync.WaitGroup
	for i := range prog {
		wg.Add(1)
		go func(ops []op) {
			defer wg.Done()
			for _, o := range ops {
				w.do(o)
			}
		}(prog[i])
	}
	wg.Wait()
	rt.Quiesce()
	w.check()
	rt.Reach("c18.conc")
}

// VerifC18Directed: engine self-test (a fixed two-goroutine program).
func VerifC18Directed() {
	w := newWorld()
	prog := [][]op{{{opCache, 0}, {opPut, 0}}, {{opSubscribe, 0}, {opCache, 1}}}
	var wg sync.WaitGroup
	for i := range prog {
		wg.Add(1)
		go func(ops []op) {
			defer wg.Done()
			for _, o := range ops {
				w.do(o)
			}
		}(prog[i])
	}
	wg.Wait()
	rt.Quiesce()
	w.check()
	rt.Reach("c18.directed")
}
