// Package c20: multi-ledger calls reach exactly the ledgers whose assets are
// in the channel.
package c20

import (
	"context"
	"errors"
	"math/big"
	"sync"

	simchannel "perun.network/go-perun/backend/sim/channel"
	"perun.network/go-perun/channel"
	"perun.network/go-perun/channel/multi"
	rt "perun.network/go-perun/internal/verifrt"
	"perun.network/go-perun/wallet"
)

type ledgerID byte

func (l ledgerID) MapKey() multi.LedgerIDMapKey { return multi.LedgerIDMapKey([]byte{byte(l)}) }

type lbid struct {
	backend uint32
	ledger  ledgerID
}

func (l lbid) tag() string {
	return string([]byte{'b', '0' + byte(l.backend), 'l', '0' + byte(l.ledger)})
}

func (l lbid) BackendID() uint32        { return l.backend }
func (l lbid) LedgerID() multi.LedgerID { return l.ledger }

type asset struct {
	simchannel.Asset
	id lbid
}

func (a *asset) LedgerBackendID() multi.LedgerBackendID { return a.id }

// event log of the per-ledger stubs
type event struct {
	ledger lbid
	method string
	start  bool
}

type world struct {
	mu     sync.Mutex
	log    []event
	fails  map[lbid]bool
	failed error
}

func (w *world) enter(l lbid, m string) {
	w.mu.Lock()
	w.log = append(w.log, event{l, m, true})
	w.mu.Unlock()
}

func (w *world) leave(l lbid, m string) error {
	rt.SchedPoint("leave " + l.tag() + " " + m)
	w.mu.Lock()
	defer w.mu.Unlock()
	w.log = append(w.log, event{l, m, false})
	if w.fails[l] {
		return w.failed
	}
	return nil
}

type stubAdj struct {
	w *world
	l lbid
}

func (s *stubAdj) Register(context.Context, channel.AdjudicatorReq, []channel.SignedState) error {
	s.w.enter(s.l, "Register")
	return s.w.leave(s.l, "Register")
}

func (s *stubAdj) Withdraw(context.Context, channel.AdjudicatorReq, channel.StateMap) error {
	s.w.enter(s.l, "Withdraw")
	return s.w.leave(s.l, "Withdraw")
}

func (s *stubAdj) Progress(context.Context, channel.ProgressReq) error {
	s.w.enter(s.l, "Progress")
	return s.w.leave(s.l, "Progress")
}

func (s *stubAdj) Subscribe(context.Context, channel.ID) (channel.AdjudicatorSubscription, error) {
	return nil, errors.New("not used")
}

type stubFunder struct {
	w *world
	l lbid
}

func (s *stubFunder) Fund(ctx context.Context, _ channel.FundingReq) error {
	s.w.enter(s.l, "Fund")
	return s.w.leave(s.l, "Fund")
}

// domain of ledgers: (backend, ledger) pairs
var domain = []lbid{{0, 0}, {0, 1}, {1, 0}, {0, 2}}

// VerifC20Dispatch: Register/Progress/Withdraw/Fund for an arbitrary asset
// list, registered set, failing set and completion order.
func VerifC20Dispatch() {
	w := &world{fails: map[lbid]bool{}, failed: errors.New("ledger call failed")}
	nd := rt.Bound("ledgers", 3)
	// asset list of length 0..maxAssets with repetitions in any order
	n := rt.Choice(rt.Bound("maxAssets", 3) + 1)
	var assets []channel.Asset
	var distinct []lbid
	plain := false
	for i := 0; i < n; i++ {
		k := rt.Choice(nd + rt.Bound("plainAsset", 0))
		if k == nd {
			assets = append(assets, &simchannel.Asset{ID: 7}) // not a multi-ledger asset
			plain = true
			continue
		}
		l := domain[k]
		assets = append(assets, &asset{id: l})
		seen := false
		for _, d := range distinct {
			seen = seen || d == l
		}
		if !seen {
			distinct = append(distinct, l)
		}
	}
	registered := map[lbid]bool{}
	adj, fun := multi.NewAdjudicator(), multi.NewFunder()
	for _, l := range domain[:nd] {
		if rt.Choice(2) == 1 {
			registered[l] = true
			adj.RegisterAdjudicator(l, &stubAdj{w, l})
			fun.RegisterFunder(l, &stubFunder{w, l})
		}
		if rt.Choice(2) == 1 {
			w.fails[l] = true
		}
	}
	st := &channel.State{Allocation: channel.Allocation{Assets: assets, Backends: make([]wallet.BackendID, len(assets)),
		Balances: channel.Balances{{big.NewInt(1)}}}, App: channel.NoApp(), Data: channel.NoData()}
	params := &channel.Params{ChallengeDuration: 1000000}
	req := channel.AdjudicatorReq{Params: params, Tx: channel.Transaction{State: st}}
	ctx := context.Background()
	method := rt.Choice(4)
	ego := -1
	var err error
	name := ""
	switch method {
	case 0:
		name = "Register"
		err = adj.Register(ctx, req, nil)
	case 1:
		name = "Progress"
		err = adj.Progress(ctx, channel.ProgressReq{AdjudicatorReq: req, NewState: st})
	case 2:
		name = "Withdraw"
		err = adj.Withdraw(ctx, req, nil)
	case 3:
		name = "Fund"
		if rt.Choice(2) == 1 {
			ego = rt.Choice(4)
			fun.SetEgoisticPart(ego)
		}
		err = fun.Fund(ctx, channel.FundingReq{Params: params, State: st})
	}
	rt.Quiesce() // calls that were still running when the method returned
	w.mu.Lock()
	defer w.mu.Unlock()
	rt.Reach("c20.dispatch")
	if plain {
		rt.Assert("c20.plain-asset-refused", err != nil && len(w.log) == 0)
		return
	}
	// reference (Appendix A.7)
	allReg, anyFail := true, false
	for _, d := range distinct {
		if !registered[d] {
			allReg = false
		} else if w.fails[d] {
			anyFail = true
		}
	}
	// exactly once per distinct registered ledger, nobody else, right method
	for _, l := range domain {
		starts, ends := 0, 0
		for _, e := range w.log {
			if e.ledger == l {
				rt.Assert("c20.method", e.method == name)
				if e.start {
					starts++
				} else {
					ends++
				}
			}
		}
		want := 0
		for _, d := range distinct {
			if d == l && registered[l] {
				want = 1
			}
		}
		egoSkipped := false
		if method == 3 && ego >= 0 && ego < len(distinct) && distinct[ego] == l {
			// the egoistic ledger is funded only if all others succeeded
			othersOK := true
			for i, d := range distinct {
				if i != ego && (!registered[d] || w.fails[d]) {
					othersOK = false
				}
			}
			egoSkipped = !othersOK
			if starts > 0 {
				rt.Assert("c20.egoistic.only-after-success", othersOK)
				// it starts after every other ledger's call returned
				first := -1
				for i, e := range w.log {
					if e.ledger == l && e.start {
						first = i
					}
				}
				for i, e := range w.log {
					if e.ledger != l {
						rt.Assert("c20.egoistic.last", i < first)
					}
				}
			}
		}
		if egoSkipped {
			rt.Assert("c20.egoistic.skipped", starts == 0)
		} else {
			rt.Assert("c20.exactly-once", starts == want && ends == want)
		}
	}
	rt.Assert("c20.result", (err == nil) == (allReg && !anyFail))
}

// VerifC20LedgerIDs: distinct ledgers in first-occurrence order.
func VerifC20LedgerIDs() {
	n := rt.Choice(rt.Bound("maxAssets", 4) + 1)
	var assets []channel.Asset
	var distinct []lbid
	for i := 0; i < n; i++ {
		l := lbid{backend: uint32(rt.NondetU8() % 2), ledger: ledgerID(rt.NondetU8() % 3)}
		assets = append(assets, &asset{id: l})
		seen := false
		for _, d := range distinct {
			if d == l {
				seen = true
			}
		}
		if !seen {
			distinct = append(distinct, l)
		}
	}
	ids, err := multi.LedgerIDsOf(assets)
	rt.Reach("c20.ids")
	rt.Assert("c20.ids.ok", err == nil && len(ids) == len(distinct))
	for i := range distinct {
		if i < len(ids) {
			rt.Assert("c20.ids.order", ids[i].BackendID() == distinct[i].backend && ids[i].LedgerID().MapKey() == distinct[i].ledger.MapKey())
		}
	}
}
