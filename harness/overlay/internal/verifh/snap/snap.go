// Package snap: independent deep snapshots of go-perun values (leaf values
// copied by the harness) and comparators against live values.
package snap

import (
	"bytes"
	"math/big"

	simchannel "perun.network/go-perun/backend/sim/channel"
	simwallet "perun.network/go-perun/backend/sim/wallet"
	"perun.network/go-perun/channel"
	rt "perun.network/go-perun/internal/verifrt"
	"perun.network/go-perun/wallet"
)

type Alloc struct {
	bals     [][]*big.Int
	assets   []uint64
	backends []wallet.BackendID
	lockedID []channel.ID
	lockedB  [][]*big.Int
	lockedM  [][]channel.Index
	nilLock  bool
}

func copyBals(b []channel.Bal) []*big.Int {
	out := make([]*big.Int, len(b))
	for i, v := range b {
		out[i] = new(big.Int).Set(v)
	}
	return out
}

func OfAlloc(a *channel.Allocation) *Alloc {
	s := &Alloc{backends: append([]wallet.BackendID(nil), a.Backends...), nilLock: a.Locked == nil}
	for _, row := range a.Balances {
		s.bals = append(s.bals, copyBals(row))
	}
	for _, as := range a.Assets {
		s.assets = append(s.assets, as.(*simchannel.Asset).ID)
	}
	for _, l := range a.Locked {
		s.lockedID = append(s.lockedID, l.ID)
		s.lockedB = append(s.lockedB, copyBals(l.Bals))
		s.lockedM = append(s.lockedM, append([]channel.Index(nil), l.IndexMap...))
	}
	return s
}

func eqBigs(a []*big.Int, b []channel.Bal) bool {
	if len(a) != len(b) {
		return false
	}
	ok := true
	for i := range a {
		ok = rt.And(ok, rt.BigEq(a[i], b[i]))
	}
	return ok
}

func (s *Alloc) Same(a *channel.Allocation) bool {
	if len(s.bals) != len(a.Balances) || len(s.assets) != len(a.Assets) || len(s.backends) != len(a.Backends) || len(s.lockedID) != len(a.Locked) {
		return false
	}
	ok := true
	for i := range s.bals {
		ok = rt.And(ok, eqBigs(s.bals[i], a.Balances[i]))
	}
	for i := range s.assets {
		as, isSim := a.Assets[i].(*simchannel.Asset)
		if !isSim {
			return false
		}
		ok = rt.And(ok, rt.And(s.assets[i] == as.ID, s.backends[i] == a.Backends[i]))
	}
	for i := range s.lockedID {
		l := a.Locked[i]
		if len(s.lockedM[i]) != len(l.IndexMap) {
			return false
		}
		ok = rt.And(ok, rt.And(s.lockedID[i] == l.ID, eqBigs(s.lockedB[i], l.Bals)))
		for j := range l.IndexMap {
			ok = rt.And(ok, s.lockedM[i][j] == l.IndexMap[j])
		}
	}
	return ok
}

type State struct {
	alloc   *Alloc
	id      channel.ID
	version uint64
	final   bool
	data    []byte
	app     channel.App
}

func OfState(s *channel.State) *State {
	d, _ := s.Data.MarshalBinary()
	return &State{alloc: OfAlloc(&s.Allocation), id: s.ID, version: s.Version, final: s.IsFinal, data: append([]byte(nil), d...), app: s.App}
}

func (s *State) Same(t *channel.State) bool {
	d, _ := t.Data.MarshalBinary()
	ok := rt.And(s.id == t.ID, rt.And(s.version == t.Version, s.final == t.IsFinal))
	ok = rt.And(ok, bytes.Equal(s.data, d))
	return rt.And(ok, s.alloc.Same(&t.Allocation))
}

type Tx struct {
	state *State
	sigs  [][]byte
	nils  []bool
}

func OfTx(t channel.Transaction) *Tx {
	s := &Tx{}
	if t.State != nil {
		s.state = OfState(t.State)
	}
	for _, sg := range t.Sigs {
		s.sigs = append(s.sigs, append([]byte(nil), sg...))
		s.nils = append(s.nils, sg == nil)
	}
	return s
}

func (s *Tx) Same(t channel.Transaction) bool {
	if (s.state == nil) != (t.State == nil) {
		return false
	}
	if s.state == nil {
		// an empty transaction: no state and no signature, whatever the number
		// of (empty) slots
		for i := range s.sigs {
			if !s.nils[i] {
				return false
			}
		}
		for _, sg := range t.Sigs {
			if sg != nil {
				return false
			}
		}
		return true
	}
	if len(s.sigs) != len(t.Sigs) {
		return false
	}
	ok := true
	if s.state != nil {
		ok = s.state.Same(t.State)
	}
	for i := range s.sigs {
		if s.nils[i] != (t.Sigs[i] == nil) {
			return false
		}
		ok = rt.And(ok, bytes.Equal(s.sigs[i], t.Sigs[i]))
	}
	return ok
}

type Params struct {
	dur     uint64
	nonce   *big.Int
	xs, ys  []*big.Int
	ledger  bool
	virtual bool
	aux     channel.Aux
	id      channel.ID
}

func OfParams(p *channel.Params) *Params {
	s := &Params{dur: p.ChallengeDuration, nonce: new(big.Int).Set(p.Nonce), ledger: p.LedgerChannel, virtual: p.VirtualChannel, aux: p.Aux, id: p.ID()}
	for _, part := range p.Parts {
		a := part[channel.TestBackendID].(*simwallet.Address)
		s.xs, s.ys = append(s.xs, new(big.Int).Set(a.X)), append(s.ys, new(big.Int).Set(a.Y))
	}
	return s
}

func (s *Params) Same(p *channel.Params) bool {
	if len(s.xs) != len(p.Parts) {
		return false
	}
	ok := rt.And(s.dur == p.ChallengeDuration, rt.And(rt.BigEq(s.nonce, p.Nonce), rt.And(s.ledger == p.LedgerChannel, s.virtual == p.VirtualChannel)))
	ok = rt.And(ok, rt.And(s.aux == p.Aux, s.id == p.ID()))
	for i, part := range p.Parts {
		a, isSim := part[channel.TestBackendID].(*simwallet.Address)
		if !isSim || len(part) != 1 {
			return false
		}
		ok = rt.And(ok, rt.And(rt.BigEq(s.xs[i], a.X), rt.BigEq(s.ys[i], a.Y)))
	}
	return ok
}


// Source is a snapshot of everything a channel.Source exposes.
type Source struct {
	Phase  channel.Phase
	Idx    channel.Index
	Stg    *Tx
	Cur    *Tx
	Params *Params
}

// OfSource snapshots a source.
func OfSource(m channel.Source) *Source {
	return &Source{Phase: m.Phase(), Idx: m.Idx(), Stg: OfTx(m.StagingTX()), Cur: OfTx(m.CurrentTX()), Params: OfParams(m.Params())}
}

// Same compares the snapshot with a live source.
func (s *Source) Same(m channel.Source) bool {
	if m.Params() == nil {
		return false
	}
	ok := rt.And(s.Phase == m.Phase(), s.Idx == m.Idx())
	return rt.And(ok, rt.And(s.Stg.Same(m.StagingTX()), rt.And(s.Cur.Same(m.CurrentTX()), s.Params.Same(m.Params()))))
}
