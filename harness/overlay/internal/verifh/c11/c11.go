// Package c11: the persistent store always describes exactly the live channels.
package c11

import (
	"context"
	"strings"

	simwire "perun.network/go-perun/backend/sim/wire"
	"perun.network/go-perun/channel"
	"perun.network/go-perun/channel/persistence"
	"perun.network/go-perun/channel/persistence/keyvalue"
	"perun.network/go-perun/internal/verifh/c10"
	"perun.network/go-perun/internal/verifh/gen"
	"perun.network/go-perun/internal/verifh/mach"
	"perun.network/go-perun/internal/verifh/snap"
	rt "perun.network/go-perun/internal/verifrt"
	"perun.network/go-perun/wallet"
	"perun.network/go-perun/wire"
)

type peerT = map[wallet.BackendID]wire.Address

func peer(tag byte) peerT {
	var a simwire.Address
	a[0] = tag
	return peerT{channel.TestBackendID: &a}
}

type chanT struct {
	w      *mach.World
	m      *channel.StateMachine
	pm     persistence.StateMachine
	peers  []peerT
	parent *channel.ID
	live   bool
}

const nChans = 3

// world: three channels of the same client with peers {P}, {P,Q}, {Q}; the
// third is a child of the first.
type world struct {
	ctx   context.Context
	db    *c10.CrashDB
	pr    *keyvalue.PersistRestorer
	chans [nChans]*chanT
	peers []peerT
}

func newWorld() *world {
	wd := &world{ctx: context.Background(), db: c10.NewCrashDB()}
	wd.pr = keyvalue.NewPersistRestorer(wd.db)
	p, q := peer(0x50), peer(0x51)
	wd.peers = []peerT{p, q}
	lists := [nChans][]peerT{{p}, {p, q}, {q}}
	for i := range wd.chans {
		w := mach.NewWorldNonce(2, 0, int64(100+i))
		if i == 1 {
			// this channel's ID contains ':' (0x3a), the store's key separator
			w = mach.NewWorldIDWith(2, 0, int64(100+i), ':')
		}
		wd.chans[i] = &chanT{w: w, peers: lists[i]}
	}
	pid := wd.chans[0].w.Params.ID()
	wd.chans[2].parent = &pid
	return wd
}

// create builds the machine through the real API up to the Acting phase and
// registers it with the store.
func (wd *world) create(i int) {
	c := wd.chans[i]
	m, err := channel.NewStateMachine(c.w.OwnAcc(), *c.w.Params)
	rt.Assume(err == nil)
	c.m = m
	c.pm = persistence.FromStateMachine(m, wd.pr)
	// Two orders exist in the client: ledger and sub-channels are registered
	// with the store first and then initialised; the hub's view of a virtual
	// channel is initialised, signed, enabled and funded first and registered
	// afterwards (persistVirtualChannel).
	createLast := rt.NondetBool()
	must := func(err error) { rt.Assert("c11.op-ok", err == nil) }
	if !createLast {
		rt.Assert("c11.create-ok", wd.pr.ChannelCreated(wd.ctx, m, c.peers, c.parent) == nil)
	}
	must(c.pm.Init(wd.ctx, channel.Allocation{Assets: gen.Assets(1), Backends: gen.Backends(1), Balances: channel.Balances{gen.Bals(2)}}, channel.NoData()))
	_, err = c.pm.Sig(wd.ctx)
	must(err)
	must(c.pm.AddSig(wd.ctx, 1, c.w.Sign(1, m.StagingState())))
	must(c.pm.EnableInit(wd.ctx))
	must(c.pm.SetFunded(wd.ctx))
	if createLast {
		rt.Assert("c11.create-ok", wd.pr.ChannelCreated(wd.ctx, m, c.peers, c.parent) == nil)
	}
	c.live = true
}

// advance performs one full update (stage, sign, countersign, enable).
func (wd *world) advance(i int) {
	c := wd.chans[i]
	must := func(err error) { rt.Assert("c11.op-ok", err == nil) }
	next := c.m.State().Clone()
	next.Version++
	next.Balances[0][0], next.Balances[0][1] = next.Balances[0][1], next.Balances[0][0]
	must(c.pm.Update(wd.ctx, next, 0))
	_, err := c.pm.Sig(wd.ctx)
	must(err)
	if rt.Choice(2) == 1 { // stop half-way: a staged, partially signed update stays in the store
		return
	}
	must(c.pm.AddSig(wd.ctx, 1, c.w.Sign(1, next)))
	must(c.pm.EnableUpdate(wd.ctx))
}

func (wd *world) remove(i int) {
	c := wd.chans[i]
	rt.Assert("c11.remove-ok", wd.pr.ChannelRemoved(wd.ctx, c.w.Params.ID()) == nil)
	c.live = false
}

func lists(c *chanT, p peerT) bool {
	for _, x := range c.peers {
		if x[channel.TestBackendID].Equal(p[channel.TestBackendID]) {
			return true
		}
	}
	return false
}

// collect drains an iterator; every channel must equal its own machine.
func (wd *world) collect(it persistence.ChannelIterator, err error) (ids map[channel.ID]bool, ok bool) {
	ids = map[channel.ID]bool{}
	if err != nil {
		return ids, false
	}
	ok = true
	for it.Next(wd.ctx) {
		ch := it.Channel()
		found := false
		for _, c := range wd.chans {
			if c.m != nil && c.w.Params.ID() == ch.ID() {
				found = true
				if ids[ch.ID()] {
					ok = false // listed twice
				}
				ids[ch.ID()] = true
				same := snap.OfSource(c.m).Same(ch)
				rt.Assert("c11.own-data", same)
				rt.Assert("c11.own-peers", len(ch.PeersV) == len(c.peers))
				rt.Assert("c11.own-parent", (ch.Parent == nil) == (c.parent == nil) && (c.parent == nil || *ch.Parent == *c.parent))
			}
		}
		if !found {
			ok = false
		}
	}
	if it.Close() != nil {
		ok = false
	}
	return ids, ok
}

// checkViews compares every restorer view with the reference set of live channels.
func (wd *world) checkViews() {
	// RestoreAll
	ids, ok := wd.collect(wd.pr.RestoreAll())
	rt.Assert("c11.all.iterates", ok)
	for _, c := range wd.chans {
		rt.Assert("c11.all.exactly-live", ids[c.w.Params.ID()] == c.live)
	}
	// RestorePeer / ActivePeers
	active, err := wd.pr.ActivePeers(wd.ctx)
	rt.Assert("c11.active.ok", err == nil)
	for _, p := range wd.peers {
		ids, ok := wd.collect(wd.pr.RestorePeer(p))
		rt.Assert("c11.peer.iterates", ok)
		any := false
		for _, c := range wd.chans {
			want := c.live && lists(c, p)
			any = any || want
			rt.Assert("c11.peer.exactly-live", ids[c.w.Params.ID()] == want)
		}
		listed := false
		for _, a := range active {
			if a[channel.TestBackendID].Equal(p[channel.TestBackendID]) {
				listed = true
			}
		}
		rt.Assert("c11.active.exactly", listed == any)
	}
	rt.Assert("c11.active.count", len(active) <= len(wd.peers))
	// RestoreChannel and residue
	keys, _ := wd.db.Dump()
	for _, c := range wd.chans {
		id := c.w.Params.ID()
		_, err := wd.pr.RestoreChannel(wd.ctx, id)
		rt.Assert("c11.channel.restorable-iff-live", (err == nil) == c.live)
		if !c.live {
			for _, k := range keys {
				rt.Assert("c11.no-residue", !strings.Contains(k, string(id[:])))
			}
		}
	}
}

// VerifC11History: all histories of h steps over {create, advance, remove} x
// three channels; the views are checked after every step.
func VerifC11History() {
	gen.K, gen.Exact = 1, true
	wd := newWorld()
	h := rt.Bound("h", 3)
	for step := 0; step < h; step++ {
		i := rt.Choice(nChans)
		c := wd.chans[i]
		switch rt.Choice(3) {
		case 0:
			rt.Assume(!c.live && c.m == nil)
			wd.create(i)
		case 1:
			rt.Assume(c.live && c.m.Phase() == channel.Acting)
			wd.advance(i)
		case 2:
			rt.Assume(c.live)
			wd.remove(i)
		}
		wd.checkViews()
	}
	rt.Reach("c11.history")
}
