// Package c01: the current off-chain state is always signed by every
// participant.
package c01

import (
	"perun.network/go-perun/channel"
	"perun.network/go-perun/internal/verifh/gen"
	"perun.network/go-perun/internal/verifh/mach"
	rt "perun.network/go-perun/internal/verifrt"
)

// VerifC01Base: a fresh machine satisfies the invariant.
func VerifC01Base() {
	gen.K, gen.Exact = 1, true
	w := mach.NewWorld(2+rt.Choice(2), 0)
	w.Own = rt.Choice(w.N)
	m, err := channel.NewStateMachine(w.OwnAcc(), *w.Params)
	rt.Assert("c01.base.new", err == nil)
	rt.Reach("c01.base")
	rt.Assert("c01.base.inv", mach.Invariant(w, m))
	rt.Assert("c01.base.idx", int(m.Idx()) == w.Own && m.Phase() == channel.InitActing)
}

// VerifC01Step: one arbitrary operation from an arbitrary invariant-satisfying
// machine re-establishes the invariant; unsigned current states only come
// from progression events; own signatures only in signing phases over the
// staged state.
func VerifC01Step() {
	gen.K, gen.Exact = 1, true
	w := mach.NewWorld(2, rt.Choice(2))
	m, pre := mach.ArbitraryMachine(w)
	rt.Assume(mach.Invariant(w, m))
	a := mach.DrawArgs(w, m, pre)
	if a.Op == mach.OpForceUpdate || a.Op == mach.OpUpdate || a.Op == mach.OpCheckUpdate {
		rt.Assume(pre.Current.State != nil)
	}
	wasUnsigned := mach.Unsigned(m)
	var sig []byte
	panicked := rt.Try(func() { sig, _ = mach.Apply(m, a) })
	rt.Assert("c01.step.nopanic", !panicked)
	rt.Reach("c01.step")
	rt.Assert("c01.step.inv", mach.Invariant(w, m))
	rt.Assert("c01.step.unsigned-origin", !mach.Unsigned(m) || wasUnsigned || a.Op == mach.OpSetProgressed)
	if sig != nil {
		rt.Reach("c01.step.sig")
		rt.Assert("c01.step.own-sig", mach.Signing(pre.Phase) && w.Verifies(w.Own, m.StagingState(), sig))
	}
}

// milestone drives a fresh machine through the real API to one of the
// protocol's milestone states (every state reached this way is reachable).
func milestone(w *mach.World, m *channel.StateMachine, k int) {
	must := func(err error) { rt.Assume(err == nil) }
	peerSign := func() {
		for i := 0; i < w.N; i++ {
			if i != w.Own {
				must(m.AddSig(channel.Index(i), w.Sign(i, m.StagingState())))
			}
		}
	}
	if k == 0 {
		return
	}
	must(m.Init(channel.Allocation{Assets: gen.Assets(1), Backends: gen.Backends(1), Balances: channel.Balances{gen.Bals(w.N)}}, channel.NoData()))
	if k == 1 {
		return
	}
	_, err := m.Sig()
	must(err)
	if k == 2 {
		return
	}
	peerSign()
	if k == 3 {
		return
	}
	must(m.EnableInit())
	if k == 4 {
		return
	}
	must(m.SetFunded())
	if k == 5 {
		return
	}
	next := m.State().Clone()
	next.Version++
	next.IsFinal = rt.NondetBool()
	must(m.Update(next, channel.Index(w.Own)))
	if k == 6 {
		return
	}
	peerSign()
	if k == 7 {
		return
	}
	_, err = m.Sig()
	must(err)
}

// NumMilestones is the number of milestone states.
const NumMilestones = 9

// VerifC01BMC: from every milestone state, all sequences of k operations keep
// the current transaction fully signed (user-level statement, re-verified with
// channel.Verify) unless it was adopted from a progression event; the
// invariant holds in every reachable state.
func VerifC01BMC() {
	gen.K, gen.Exact = 1, true
	w := mach.NewWorld(2, rt.Choice(2))
	m, err := channel.NewStateMachine(w.OwnAcc(), *w.Params)
	rt.Assume(err == nil)
	milestone(w, m, rt.Choice(NumMilestones))
	k := rt.Bound("k", 2)
	progressed := false
	for i := 0; i < k; i++ {
		pre := &mach.Pre{Phase: m.Phase(), Staging: m.StagingTX(), Current: m.CurrentTX()}
		if pre.Staging.State != nil {
			pre.StgSlots = make([]bool, w.N)
			for j, s := range pre.Staging.Sigs {
				pre.StgSlots[j] = s != nil
			}
		}
		a := mach.DrawArgs(w, m, pre)
		if a.Op == mach.OpForceUpdate || a.Op == mach.OpUpdate || a.Op == mach.OpCheckUpdate {
			rt.Assume(pre.Current.State != nil)
		}
		if a.Op == mach.OpSetProgressed {
			progressed = true
		}
		panicked := rt.Try(func() { mach.Apply(m, a) })
		rt.Assert("c01.bmc.nopanic", !panicked)
		rt.Assert("c01.bmc.inv-reachable", mach.Invariant(w, m))
		rt.Assert("c01.bmc.fully-signed", mach.FullySigned(w, m) || (progressed && mach.Unsigned(m)))
	}
	rt.Reach("c01.bmc")
}
