// Package c14: encoding then decoding returns an equal value and consumes
// exactly its bytes; re-encoding reproduces the bytes.
package c14

import (
	"bytes"
	"io"
	"math/big"
	"time"

	simwallet "perun.network/go-perun/backend/sim/wallet"
	simwire "perun.network/go-perun/backend/sim/wire"
	"perun.network/go-perun/channel"
	"perun.network/go-perun/client"
	"perun.network/go-perun/internal/verifh/gen"
	rt "perun.network/go-perun/internal/verifrt"
	"perun.network/go-perun/wallet"
	"perun.network/go-perun/wire"
	"perun.network/go-perun/wire/perunio"
	perunser "perun.network/go-perun/wire/perunio/serializer"
	"perun.network/go-perun/wire/protobuf"
)

const nTrail = 3

// roundTrip encodes with enc, appends nTrail arbitrary bytes, decodes with dec
// and checks success, exact consumption and (with reenc) stable encoding.
// The caller compares the decoded value.
func roundTrip(label string, enc func(io.Writer) error, dec func(io.Reader) error, reenc func(io.Writer) error) bool {
	var buf bytes.Buffer
	rt.Assert(label+".enc-ok", enc(&buf) == nil)
	encoded := append([]byte(nil), buf.Bytes()...)
	trail := rt.NondetBytes(nTrail)
	buf.Write(trail)
	rd := bytes.NewReader(buf.Bytes())
	err := dec(rd)
	rt.Assert(label+".dec-ok", err == nil)
	if err != nil {
		return false
	}
	rest, _ := io.ReadAll(rd)
	rt.Assert(label+".consumed", bytes.Equal(rest, trail))
	if reenc != nil {
		var b2 bytes.Buffer
		rt.Assert(label+".reenc-ok", reenc(&b2) == nil)
		rt.Assert(label+".stable", bytes.Equal(b2.Bytes(), encoded))
	}
	return true
}

// ---- independent leaf comparators

func eqBals(a, b []channel.Bal) bool {
	if len(a) != len(b) {
		return false
	}
	ok := true
	for i := range a {
		if b[i] == nil {
			return false
		}
		ok = rt.And(ok, rt.BigEq(a[i], b[i]))
	}
	return ok
}

func eqBalances(a, b channel.Balances) bool {
	if len(a) != len(b) {
		return false
	}
	ok := true
	for i := range a {
		ok = rt.And(ok, eqBals(a[i], b[i]))
	}
	return ok
}

func eqIdx(a, b []channel.Index) bool {
	if len(a) != len(b) {
		return false
	}
	ok := true
	for i := range a {
		ok = rt.And(ok, a[i] == b[i])
	}
	return ok
}

func eqAlloc(a, b *channel.Allocation) bool {
	if len(a.Assets) != len(b.Assets) || len(a.Backends) != len(b.Backends) || len(a.Locked) != len(b.Locked) {
		return false
	}
	ok := eqBalances(a.Balances, b.Balances)
	for i := range a.Assets {
		ok = rt.And(ok, a.Assets[i].Equal(b.Assets[i]))
		ok = rt.And(ok, a.Backends[i] == b.Backends[i])
	}
	for i := range a.Locked {
		ok = rt.And(ok, a.Locked[i].ID == b.Locked[i].ID)
		ok = rt.And(ok, eqBals(a.Locked[i].Bals, b.Locked[i].Bals))
		ok = rt.And(ok, eqIdx(a.Locked[i].IndexMap, b.Locked[i].IndexMap))
	}
	return ok
}

func eqApp(a, b channel.App) bool {
	if channel.IsNoApp(a) || channel.IsNoApp(b) {
		return channel.IsNoApp(a) && channel.IsNoApp(b)
	}
	return a.Def().Equal(b.Def())
}

func eqData(a, b channel.Data) bool {
	x, _ := a.MarshalBinary()
	y, _ := b.MarshalBinary()
	return bytes.Equal(x, y)
}

func eqState(a, b *channel.State) bool {
	ok := rt.And(a.ID == b.ID, rt.And(a.Version == b.Version, a.IsFinal == b.IsFinal))
	ok = rt.And(ok, eqApp(a.App, b.App))
	ok = rt.And(ok, eqData(a.Data, b.Data))
	return rt.And(ok, eqAlloc(&a.Allocation, &b.Allocation))
}

func eqSigs(a, b []wallet.Sig) bool {
	if len(a) != len(b) {
		return false
	}
	ok := true
	for i := range a {
		if (a[i] == nil) != (b[i] == nil) {
			return false
		}
		ok = rt.And(ok, bytes.Equal(a[i], b[i]))
	}
	return ok
}

func eqWalletAddrs(a, b map[wallet.BackendID]wallet.Address) bool {
	if len(a) != len(b) {
		return false
	}
	ok := true
	for k, x := range a {
		y, has := b[k]
		if !has {
			return false
		}
		ok = rt.And(ok, x.Equal(y))
	}
	return ok
}

func eqWireAddrs(a, b map[wallet.BackendID]wire.Address) bool {
	if len(a) != len(b) {
		return false
	}
	ok := true
	for k, x := range a {
		y, has := b[k]
		if !has {
			return false
		}
		ok = rt.And(ok, x.Equal(y))
	}
	return ok
}

func eqParams(p, q *channel.Params) bool {
	if len(p.Parts) != len(q.Parts) {
		return false
	}
	ok := rt.And(p.ChallengeDuration == q.ChallengeDuration, rt.And(rt.BigEq(p.Nonce, q.Nonce),
		rt.And(p.LedgerChannel == q.LedgerChannel, p.VirtualChannel == q.VirtualChannel)))
	ok = rt.And(ok, rt.And(p.Aux == q.Aux, p.ID() == q.ID()))
	for i := range p.Parts {
		ok = rt.And(ok, eqWalletAddrs(p.Parts[i], q.Parts[i]))
	}
	return rt.And(ok, eqApp(p.App, q.App))
}

// ---- generators

func wireAddr() map[wallet.BackendID]wire.Address {
	var a simwire.Address
	for i := range a {
		a[i] = rt.NondetU8()
	}
	return map[wallet.BackendID]wire.Address{wireKey: &a}
}

// wireKey is the backend id under which wire addresses are stored in this run:
// wire address maps are not tied to registered backends, so ids other than 0
// round-trip as well (drawn once per run by drawWireKey).
var wireKey wallet.BackendID

func drawWireKey() {
	wireKey = []wallet.BackendID{0, 1, 6, 2147483647}[rt.Choice(rt.Bound("wireKeys", 4))]
}

func walletAddr() map[wallet.BackendID]wallet.Address {
	return map[wallet.BackendID]wallet.Address{channel.TestBackendID: gen.Address(gen.K)}
}

func sig() wallet.Sig { return rt.NondetBytes(64) }

func sigs(n int) []wallet.Sig {
	out := make([]wallet.Sig, n)
	for i := range out {
		if rt.Choice(2) == 1 {
			out[i] = sig()
		}
	}
	return out
}

func id32() (x [32]byte) { return gen.ID() }

func str() string {
	n := rt.Choice(rt.Bound("maxStr", 2) + 1)
	b := rt.NondetBytes(n)
	for _, c := range b {
		// text fields: protobuf refuses strings that are not valid UTF-8
		rt.Assume(c < 0x80)
	}
	return string(b)
}

func aux() (a channel.Aux) {
	a[0], a[100], a[255] = rt.NondetU8(), rt.NondetU8(), rt.NondetU8()
	return
}

// lockedShapes draws 0..maxS sub-allocations, each with a nil, empty or
// n-entry index map.
func lockedShapes(n int) []int {
	k := rt.Choice(rt.Bound("maxS", 1) + 1)
	if k == 0 {
		return nil
	}
	out := make([]int, k)
	for i := range out {
		out[i] = []int{-1, 0, n}[rt.Choice(3)]
	}
	return out
}

func state() *channel.State {
	a := 1 + rt.Choice(rt.Bound("maxA", 1))
	n := 1 + rt.Choice(rt.Bound("maxN", 2))
	k := rt.Choice(2)
	s := gen.State(a, n, lockedShapes(n), k)
	if k == 1 {
		channel.RegisterApp(s.App)
	}
	return s
}

func params() *channel.Params {
	n := 2 + rt.Choice(rt.Bound("maxN", 2)-1)
	parts := make([]map[wallet.BackendID]wallet.Address, n)
	for i := range parts {
		parts[i] = walletAddr()
	}
	var app channel.App = channel.NoApp()
	if rt.Choice(2) == 1 {
		app = gen.App(1)
		channel.RegisterApp(app)
	}
	dur := rt.NondetU64()
	rt.Assume(dur != 0)
	p, err := channel.NewParams(dur, parts, app, gen.BigK(gen.K), rt.NondetBool(), rt.NondetBool(), aux())
	rt.Assume(err == nil)
	return p
}

// sameIdxShape normalises nil vs empty index maps: the encoding does not
// distinguish them (length 0), so decode yields an empty one.

// ---- value types

// VerifC14Values: the value types (selected by Choice).
func VerifC14Values() {
	drawWireKey()
	gen.Setup()
	switch rt.Choice(8) {
	case 0: // Balances
		x := gen.Balances(rt.Choice(3), 1+rt.Choice(2))
		var y channel.Balances
		if roundTrip("c14.balances", x.Encode, y.Decode, func(w io.Writer) error { return y.Encode(w) }) {
			// an empty matrix loses its participant count (0 x n encodes as 0 x 0)
			rt.Assert("c14.balances.eq", eqBalances(x, y))
		}
	case 1: // SubAlloc
		x := gen.SubAlloc(rt.Choice(3), rt.Choice(4)-1)
		var y channel.SubAlloc
		if roundTrip("c14.suballoc", x.Encode, y.Decode, func(w io.Writer) error { return y.Encode(w) }) {
			rt.Assert("c14.suballoc.eq", x.ID == y.ID && eqBals(x.Bals, y.Bals) && eqIdx(x.IndexMap, y.IndexMap))
			rt.Assert("c14.suballoc.repo-equal", x.Equal(&y) == nil)
		}
	case 2: // Allocation
		n := 1 + rt.Choice(2)
		x := gen.Allocation(1+rt.Choice(rt.Bound("maxA", 1)), n, lockedShapes(n))
		var y channel.Allocation
		if roundTrip("c14.alloc", x.Encode, y.Decode, func(w io.Writer) error { return y.Encode(w) }) {
			rt.Assert("c14.alloc.eq", eqAlloc(&x, &y))
			rt.Assert("c14.alloc.repo-equal", x.Equal(&y) == nil)
		}
	case 3: // State
		x := state()
		var y channel.State
		if roundTrip("c14.state", x.Encode, y.Decode, func(w io.Writer) error { return y.Encode(w) }) {
			rt.Assert("c14.state.eq", eqState(x, &y))
			rt.Assert("c14.state.repo-equal", x.Equal(&y) == nil)
		}
	case 4: // Params
		x := params()
		var y channel.Params
		if roundTrip("c14.params", x.Encode, y.Decode, func(w io.Writer) error { return y.Encode(w) }) {
			rt.Assert("c14.params.eq", eqParams(x, &y))
		}
	case 5: // Transaction (with and without state, any subset of signatures)
		var x channel.Transaction
		if rt.Choice(2) == 1 {
			x.State = state()
			x.Sigs = sigs(x.State.NumParts())
		}
		var y channel.Transaction
		if roundTrip("c14.tx", x.Encode, y.Decode, func(w io.Writer) error { return y.Encode(w) }) {
			if x.State == nil {
				rt.Assert("c14.tx.nil", y.State == nil)
			} else {
				rt.Assert("c14.tx.eq", y.State != nil && eqState(x.State, y.State) && eqSigs(x.Sigs, y.Sigs))
			}
		}
	case 6: // wallet address map array
		n := rt.Choice(3)
		x := wallet.AddressMapArray{Addr: make([]map[wallet.BackendID]wallet.Address, n)}
		for i := range x.Addr {
			x.Addr[i] = walletAddr()
		}
		var y wallet.AddressMapArray
		if roundTrip("c14.walletaddrs", x.Encode, y.Decode, func(w io.Writer) error { return y.Encode(w) }) {
			ok := len(x.Addr) == len(y.Addr)
			for i := 0; ok && i < n; i++ {
				ok = eqWalletAddrs(x.Addr[i], y.Addr[i])
			}
			rt.Assert("c14.walletaddrs.eq", ok)
		}
	case 7: // wire address map array
		n := rt.Choice(3)
		x := make(wire.AddressMapArray, n)
		for i := range x {
			x[i] = wireAddr()
		}
		var y wire.AddressMapArray
		if roundTrip("c14.wireaddrs", x.Encode, y.Decode, func(w io.Writer) error { return y.Encode(w) }) {
			ok := len(x) == len(y)
			for i := 0; ok && i < n; i++ {
				ok = eqWireAddrs(x[i], y[i])
			}
			rt.Assert("c14.wireaddrs.eq", ok)
		}
	}
	rt.Reach("c14.values")
}

// VerifC14BigInt: the big-integer codec for every byte length 0..maxLen.
func VerifC14BigInt() {
	l := rt.Choice(rt.Bound("maxLen", 129) + 1)
	x := rt.NondetBigExact(l)
	var buf bytes.Buffer
	err := perunio.BigInt{Int: x}.Encode(&buf)
	rt.Reach("c14.bigint")
	rt.Assert("c14.bigint.enc-limit", (err == nil) == (l <= perunio.MaxBigIntLength))
	if err != nil {
		return
	}
	rt.Assert("c14.bigint.len", buf.Len() == 1+l)
	buf.Write([]byte{0xAA})
	var y perunio.BigInt
	rt.Assert("c14.bigint.dec-ok", y.Decode(&buf) == nil)
	rt.Assert("c14.bigint.eq", y.Int != nil && rt.BigEq(x, y.Int))
	rt.Assert("c14.bigint.consumed", buf.Len() == 1)
}

// VerifC14BigIntPair: two big integers back to back decode to the same pair
// (framing is injective).
func VerifC14BigIntPair() {
	a, b := rt.NondetBig(rt.Bound("K", 2)), rt.NondetBig(rt.Bound("K", 2))
	var buf bytes.Buffer
	rt.Assume(perunio.Encode(&buf, a, b) == nil)
	var x, y *big.Int
	rt.Assert("c14.bigpair.dec-ok", perunio.Decode(&buf, &x, &y) == nil)
	rt.Reach("c14.bigpair")
	rt.Assert("c14.bigpair.eq", rt.BigEq(a, x) && rt.BigEq(b, y))
	rt.Assert("c14.bigpair.consumed", buf.Len() == 0)
}

// ---- messages

func baseProposal() client.BaseChannelProposal {
	n := 2
	al := gen.Allocation(1, n, nil)
	k := rt.Choice(2)
	app := gen.App(k)
	if k == 1 {
		channel.RegisterApp(app)
	}
	return client.BaseChannelProposal{
		ProposalID: id32(), ChallengeDuration: rt.NondetU64(), NonceShare: id32(),
		App: app, InitData: gen.Data(k), InitBals: &al, FundingAgreement: gen.Balances(1, n), Aux: aux(),
	}
}

func eqBase(a, b *client.BaseChannelProposal) bool {
	ok := rt.And(a.ProposalID == b.ProposalID, rt.And(a.ChallengeDuration == b.ChallengeDuration, a.NonceShare == b.NonceShare))
	ok = rt.And(ok, rt.And(eqApp(a.App, b.App), eqData(a.InitData, b.InitData)))
	ok = rt.And(ok, rt.And(eqAlloc(a.InitBals, b.InitBals), eqBalances(a.FundingAgreement, b.FundingAgreement)))
	return rt.And(ok, a.Aux == b.Aux)
}

func peers(n int) []map[wallet.BackendID]wire.Address {
	out := make([]map[wallet.BackendID]wire.Address, n)
	for i := range out {
		out[i] = wireAddr()
	}
	return out
}

func eqPeers(a, b []map[wallet.BackendID]wire.Address) bool {
	if len(a) != len(b) {
		return false
	}
	ok := true
	for i := range a {
		ok = rt.And(ok, eqWireAddrs(a[i], b[i]))
	}
	return ok
}

// innerState: the state inside composite messages; the full shape variety
// only in the thorough tier (bound deep=1).
func innerState() *channel.State {
	if rt.Bound("deep", 0) == 1 {
		return state()
	}
	return gen.State(1, 2, nil, 0)
}

func update() client.ChannelUpdateMsg {
	return client.ChannelUpdateMsg{ChannelUpdate: client.ChannelUpdate{State: innerState(), ActorIdx: channel.Index(rt.NondetU16())}, Sig: sig()}
}

func eqUpdate(a, b *client.ChannelUpdateMsg) bool {
	return rt.And(eqState(a.State, b.State), rt.And(a.ActorIdx == b.ActorIdx, bytes.Equal(a.Sig, b.Sig)))
}

func signedState() channel.SignedState {
	p := params()
	s := gen.State(1, len(p.Parts), nil, 0)
	return channel.SignedState{Params: p, State: s, Sigs: sigs(len(p.Parts))}
}

func eqSigned(a, b *channel.SignedState) bool {
	return rt.And(eqParams(a.Params, b.Params), rt.And(eqState(a.State, b.State), eqSigs(a.Sigs, b.Sigs)))
}

// NumMsgs is the number of message types.
const NumMsgs = 17

// message draws a message of type k together with a comparator.
func message(k int) (wire.Msg, func(wire.Msg) bool) {
	switch wire.Type(k) {
	case wire.Ping:
		x := &wire.PingMsg{PingPongMsg: wire.PingPongMsg{Created: time.Unix(0, int64(rt.NondetU64()))}}
		return x, func(m wire.Msg) bool { y, ok := m.(*wire.PingMsg); return ok && y.Created.Equal(x.Created) }
	case wire.Pong:
		x := &wire.PongMsg{PingPongMsg: wire.PingPongMsg{Created: time.Unix(0, int64(rt.NondetU64()))}}
		return x, func(m wire.Msg) bool { y, ok := m.(*wire.PongMsg); return ok && y.Created.Equal(x.Created) }
	case wire.Shutdown:
		x := &wire.ShutdownMsg{Reason: str()}
		return x, func(m wire.Msg) bool { y, ok := m.(*wire.ShutdownMsg); return ok && y.Reason == x.Reason }
	case wire.AuthResponse:
		x := &wire.AuthResponseMsg{Signature: rt.NondetBytes(rt.Choice(4))}
		return x, func(m wire.Msg) bool {
			y, ok := m.(*wire.AuthResponseMsg)
			return ok && bytes.Equal(y.Signature, x.Signature)
		}
	case wire.LedgerChannelProposal:
		x := &client.LedgerChannelProposalMsg{BaseChannelProposal: baseProposal(), Participant: walletAddr(), Peers: peers(2)}
		return x, func(m wire.Msg) bool {
			y, ok := m.(*client.LedgerChannelProposalMsg)
			return ok && eqBase(&x.BaseChannelProposal, &y.BaseChannelProposal) && eqWalletAddrs(x.Participant, y.Participant) && eqPeers(x.Peers, y.Peers)
		}
	case wire.LedgerChannelProposalAcc:
		x := &client.LedgerChannelProposalAccMsg{BaseChannelProposalAcc: client.BaseChannelProposalAcc{ProposalID: id32(), NonceShare: id32()}, Participant: walletAddr()}
		return x, func(m wire.Msg) bool {
			y, ok := m.(*client.LedgerChannelProposalAccMsg)
			return ok && x.ProposalID == y.ProposalID && x.NonceShare == y.NonceShare && eqWalletAddrs(x.Participant, y.Participant)
		}
	case wire.SubChannelProposal:
		x := &client.SubChannelProposalMsg{BaseChannelProposal: baseProposal(), Parent: id32()}
		return x, func(m wire.Msg) bool {
			y, ok := m.(*client.SubChannelProposalMsg)
			return ok && eqBase(&x.BaseChannelProposal, &y.BaseChannelProposal) && x.Parent == y.Parent
		}
	case wire.SubChannelProposalAcc:
		x := &client.SubChannelProposalAccMsg{BaseChannelProposalAcc: client.BaseChannelProposalAcc{ProposalID: id32(), NonceShare: id32()}}
		return x, func(m wire.Msg) bool {
			y, ok := m.(*client.SubChannelProposalAccMsg)
			return ok && x.ProposalID == y.ProposalID && x.NonceShare == y.NonceShare
		}
	case wire.VirtualChannelProposal:
		np := rt.Choice(3)
		x := &client.VirtualChannelProposalMsg{BaseChannelProposal: baseProposal(), Proposer: walletAddr(), Peers: peers(2)}
		for i := 0; i < np; i++ {
			x.Parents = append(x.Parents, id32())
			x.IndexMaps = append(x.IndexMaps, gen.IndexMap(rt.Choice(3)))
		}
		return x, func(m wire.Msg) bool {
			y, ok := m.(*client.VirtualChannelProposalMsg)
			if !ok || len(y.Parents) != np || len(y.IndexMaps) != np {
				return false
			}
			e := rt.And(eqBase(&x.BaseChannelProposal, &y.BaseChannelProposal), rt.And(eqWalletAddrs(x.Proposer, y.Proposer), eqPeers(x.Peers, y.Peers)))
			for i := 0; i < np; i++ {
				e = rt.And(e, rt.And(x.Parents[i] == y.Parents[i], eqIdx(x.IndexMaps[i], y.IndexMaps[i])))
			}
			return e
		}
	case wire.VirtualChannelProposalAcc:
		x := &client.VirtualChannelProposalAccMsg{BaseChannelProposalAcc: client.BaseChannelProposalAcc{ProposalID: id32(), NonceShare: id32()}, Responder: walletAddr()}
		return x, func(m wire.Msg) bool {
			y, ok := m.(*client.VirtualChannelProposalAccMsg)
			return ok && x.ProposalID == y.ProposalID && x.NonceShare == y.NonceShare && eqWalletAddrs(x.Responder, y.Responder)
		}
	case wire.ChannelProposalRej:
		x := &client.ChannelProposalRejMsg{ProposalID: id32(), Reason: str()}
		return x, func(m wire.Msg) bool {
			y, ok := m.(*client.ChannelProposalRejMsg)
			return ok && x.ProposalID == y.ProposalID && x.Reason == y.Reason
		}
	case wire.ChannelUpdate:
		u := update()
		u.State = state()
		x := &u
		return x, func(m wire.Msg) bool { y, ok := m.(*client.ChannelUpdateMsg); return ok && eqUpdate(x, y) }
	case wire.VirtualChannelFundingProposal:
		x := &client.VirtualChannelFundingProposalMsg{ChannelUpdateMsg: update(), Initial: signedState(), IndexMap: gen.IndexMap(rt.Choice(3))}
		return x, func(m wire.Msg) bool {
			y, ok := m.(*client.VirtualChannelFundingProposalMsg)
			return ok && eqUpdate(&x.ChannelUpdateMsg, &y.ChannelUpdateMsg) && eqSigned(&x.Initial, &y.Initial) && eqIdx(x.IndexMap, y.IndexMap)
		}
	case wire.VirtualChannelSettlementProposal:
		x := &client.VirtualChannelSettlementProposalMsg{ChannelUpdateMsg: update(), Final: signedState()}
		return x, func(m wire.Msg) bool {
			y, ok := m.(*client.VirtualChannelSettlementProposalMsg)
			return ok && eqUpdate(&x.ChannelUpdateMsg, &y.ChannelUpdateMsg) && eqSigned(&x.Final, &y.Final)
		}
	case wire.ChannelUpdateAcc:
		x := &client.ChannelUpdateAccMsg{ChannelID: id32(), Version: rt.NondetU64(), Sig: sig()}
		return x, func(m wire.Msg) bool {
			y, ok := m.(*client.ChannelUpdateAccMsg)
			return ok && x.ChannelID == y.ChannelID && x.Version == y.Version && bytes.Equal(x.Sig, y.Sig)
		}
	case wire.ChannelUpdateRej:
		x := &client.ChannelUpdateRejMsg{ChannelID: id32(), Version: rt.NondetU64(), Reason: str()}
		return x, func(m wire.Msg) bool {
			y, ok := m.(*client.ChannelUpdateRejMsg)
			return ok && x.ChannelID == y.ChannelID && x.Version == y.Version && x.Reason == y.Reason
		}
	case wire.ChannelSync:
		x := &client.ChannelSyncMsg{Phase: channel.Phase(rt.NondetU8())}
		x.CurrentTX.State = innerState()
		x.CurrentTX.Sigs = sigs(x.CurrentTX.NumParts())
		return x, func(m wire.Msg) bool {
			y, ok := m.(*client.ChannelSyncMsg)
			return ok && x.Phase == y.Phase && y.CurrentTX.State != nil && eqState(x.CurrentTX.State, y.CurrentTX.State) && eqSigs(x.CurrentTX.Sigs, y.CurrentTX.Sigs)
		}
	}
	return nil, nil
}

// VerifC14Messages: every message type through wire.EncodeMsg / DecodeMsg.
func VerifC14Messages() {
	drawWireKey()
	gen.Setup()
	k := rt.Choice(NumMsgs)
	x, same := message(k)
	var y wire.Msg
	ok := roundTrip("c14.msg."+wire.Type(k).String(),
		func(w io.Writer) error { return wire.EncodeMsg(x, w) },
		func(r io.Reader) (err error) { y, err = wire.DecodeMsg(r); return },
		func(w io.Writer) error { return wire.EncodeMsg(y, w) })
	rt.Reach("c14.msg")
	if ok {
		rt.Assert("c14.msg.eq."+wire.Type(k).String(), same(y))
	}
}

// VerifC14Envelopes: two envelopes back to back through the envelope
// serializer decode in order and consume exactly their bytes.
func VerifC14Envelopes() {
	drawWireKey()
	gen.Setup()
	ser := perunser.Serializer()
	pick := func() int { return []int{int(wire.Ping), int(wire.ChannelUpdateAcc), int(wire.ChannelProposalRej), int(wire.ChannelUpdate)}[rt.Choice(rt.Bound("envKinds", 3))] }
	m1, same1 := message(pick())
	m2, same2 := message(pick())
	e1 := &wire.Envelope{Sender: wireAddr(), Recipient: wireAddr(), Msg: m1}
	e2 := &wire.Envelope{Sender: wireAddr(), Recipient: wireAddr(), Msg: m2}
	var buf bytes.Buffer
	rt.Assert("c14.env.enc-ok", ser.Encode(&buf, e1) == nil && ser.Encode(&buf, e2) == nil)
	trail := rt.NondetBytes(nTrail)
	buf.Write(trail)
	rd := bytes.NewReader(buf.Bytes())
	d1, err1 := ser.Decode(rd)
	d2, err2 := ser.Decode(rd)
	rt.Assert("c14.env.dec-ok", err1 == nil && err2 == nil)
	rt.Reach("c14.env")
	if err1 == nil && err2 == nil {
		rt.Assert("c14.env.first", eqWireAddrs(e1.Sender, d1.Sender) && eqWireAddrs(e1.Recipient, d1.Recipient) && same1(d1.Msg))
		rt.Assert("c14.env.second", eqWireAddrs(e2.Sender, d2.Sender) && eqWireAddrs(e2.Recipient, d2.Recipient) && same2(d2.Msg))
		rest, _ := io.ReadAll(rd)
		rt.Assert("c14.env.consumed", bytes.Equal(rest, trail))
	}
}

var _ = simwallet.NewRandomAccount

// VerifC14Protobuf: every message type through the protobuf envelope
// serializer (From*/To* conversions and framing; proto.Marshal/Unmarshal are
// outside the claim), and agreement with the native serializer's result.
func VerifC14Protobuf() {
	drawWireKey()
	gen.Setup()
	k := rt.Choice(NumMsgs)
	x, same := message(k)
	name := wire.Type(k).String()
	e := &wire.Envelope{Sender: wireAddr(), Recipient: wireAddr(), Msg: x}
	ser := protobuf.Serializer()
	var buf bytes.Buffer
	rt.Assert("c14.pb.enc-ok", ser.Encode(&buf, e) == nil)
	trail := rt.NondetBytes(nTrail)
	buf.Write(trail)
	rd := bytes.NewReader(buf.Bytes())
	d, err := ser.Decode(rd)
	rt.Assert("c14.pb.dec-ok", err == nil)
	rt.Reach("c14.pb")
	if err != nil {
		return
	}
	rt.Assert("c14.pb.addrs", eqWireAddrs(e.Sender, d.Sender) && eqWireAddrs(e.Recipient, d.Recipient))
	rt.Assert("c14.pb.eq."+name, same(d.Msg))
	rest, _ := io.ReadAll(rd)
	rt.Assert("c14.pb.consumed", bytes.Equal(rest, trail))
	// the two serializers agree on the decoded message: the protobuf result
	// re-encodes natively to the same bytes as the original
	var n1, n2 bytes.Buffer
	rt.Assume(wire.EncodeMsg(x, &n1) == nil)
	rt.Assert("c14.pb.native-reenc-ok."+name, wire.EncodeMsg(d.Msg, &n2) == nil)
	rt.Assert("c14.pb.agrees-with-native."+name, bytes.Equal(n1.Bytes(), n2.Bytes()))
}
