// Package c07: a client never countersigns an update that is unsafe for it.
package c07

import (
	"context"
	"math/big"

	"perun.network/go-perun/channel"
	"perun.network/go-perun/client"
	"perun.network/go-perun/internal/verifh/cw"
	"perun.network/go-perun/internal/verifh/gen"
	rt "perun.network/go-perun/internal/verifrt"
	"perun.network/go-perun/wallet"
	"perun.network/go-perun/wire"
)

type situation struct {
	w      *cw.World
	ch     *client.Channel
	params *channel.Params
	cur    *channel.State
	ownIdx int
	phase  channel.Phase
	accBase int // accept messages sent before the update under test
}

func indexMap() []channel.Index {
	return [][]channel.Index{{}, {0, 1}, {1, 0}}[rt.Choice(3)]
}

// newSituation: the honest client's ledger channel with the adversary in an
// arbitrary phase; the current state has arbitrary balances and nLocked
// sub-allocations.
func newSituation(maxLocked int) *situation {
	return newSituationN(maxLocked, nil)
}

// newSituationWith lets the caller edit the current state before adoption.
func newSituationWith(edit func(*channel.State)) *situation {
	return newSituationN(1, func(s *situation) { edit(s.cur) })
}

func newSituationN(maxLocked int, edit func(*situation)) *situation {
	gen.K, gen.Exact = 1, true
	s := &situation{w: cw.New(), ownIdx: rt.Choice(2)}
	s.params = s.w.Params(s.ownIdx, 7, channel.NoApp(), false)
	s.cur = &channel.State{ID: s.params.ID(), Version: uint64(rt.NondetU8()), App: channel.NoApp(), Data: channel.NoData(),
		Allocation: channel.Allocation{Assets: gen.Assets(1), Backends: gen.Backends(1), Balances: channel.Balances{gen.Bals(2)}}}
	for i, n := 0, rt.Choice(maxLocked+1); i < n; i++ {
		s.cur.Locked = append(s.cur.Locked, channel.SubAlloc{ID: gen.ID(), Bals: gen.Bals(1), IndexMap: indexMap()})
	}
	s.phase = []channel.Phase{channel.Acting, channel.Final, channel.Registered, channel.Funding}[rt.Choice(rt.Bound("phases", 2))]
	if s.phase == channel.Final {
		s.cur.IsFinal = true
	}
	if edit != nil {
		edit(s)
	}
	s.ch = s.w.Adopt(s.params, s.ownIdx, s.phase, s.cur, nil)
	return s
}

func total(st *channel.State) *big.Int {
	t := gen.SumBals(st.Balances[0])
	for _, l := range st.Locked {
		t = new(big.Int).Add(t, l.Bals[0])
	}
	return t
}

func sameLocked(a, b []channel.SubAlloc) bool {
	if len(a) != len(b) {
		return false
	}
	for i := range a {
		if a[i].ID != b[i].ID || len(a[i].Bals) != len(b[i].Bals) || len(a[i].IndexMap) != len(b[i].IndexMap) {
			return false
		}
		for j := range a[i].Bals {
			if !rt.BigEq(a[i].Bals[j], b[i].Bals[j]) {
				return false
			}
		}
		for j := range a[i].IndexMap {
			if a[i].IndexMap[j] != b[i].IndexMap[j] {
				return false
			}
		}
	}
	return true
}

func wellFormed(st *channel.State) bool {
	if len(st.Assets) != 1 || len(st.Backends) != 1 || len(st.Balances) != 1 || len(st.Balances[0]) != 2 {
		return false
	}
	for _, b := range st.Balances[0] {
		if b.Sign() < 0 {
			return false
		}
	}
	for _, l := range st.Locked {
		if len(l.Bals) != 1 || l.Bals[0].Sign() < 0 {
			return false
		}
	}
	return true
}

// successor: to is a valid successor of the current state (generic rules; the
// channel has no app).
func (s *situation) successor(to *channel.State) bool {
	cur := s.cur
	return s.phase == channel.Acting && !cur.IsFinal && to.ID == cur.ID && to.Version == cur.Version+1 && wellFormed(to) &&
		to.Assets[0].Equal(cur.Assets[0]) && to.Backends[0] == cur.Backends[0] && rt.BigEq(total(to), total(cur)) &&
		channel.IsNoApp(to.App) && channel.IsNoData(to.Data)
}

// acceptable: the independent predicate for ordinary updates.
// The wire-level sender is not part of it: the property identifies the sender
// by the signature (an update relayed by a third party is still signed by the
// channel peer and answered to the channel peer).
func (s *situation) acceptable(to *channel.State, actor channel.Index, sigOK bool) bool {
	return sigOK && s.successor(to) && int(actor) == 1-s.ownIdx && sameLocked(s.cur.Locked, to.Locked)
}

// NumDev is the number of single deviations of craft.
const NumDev = 12

// craft: a candidate with arbitrary balances, version offset and one structural deviation.
func (s *situation) craft(dev int) *channel.State {
	to := s.cur.Clone()
	to.Version++
	to.Balances = channel.Balances{gen.Bals(2)} // arbitrary (the sum may or may not be preserved)
	switch dev {
	case 0:
	case 1:
		to.Version = rt.NondetU64()
	case 2:
		to.ID = gen.ID()
	case 3:
		to.IsFinal = true
	case 4: // amount of a locked sub-allocation edited
		if len(to.Locked) > 0 {
			to.Locked[rt.Choice(len(to.Locked))].Bals = gen.Bals(1)
		}
	case 5: // index map edited
		if len(to.Locked) > 0 {
			i := rt.Choice(len(to.Locked))
			if rt.Choice(2) == 0 {
				to.Locked[i].IndexMap = []channel.Index{channel.Index(rt.NondetU16()), channel.Index(rt.NondetU16())}
			} else {
				to.Locked[i].IndexMap = indexMap()
			}
		}
	case 6: // identity of a locked sub-allocation edited
		if len(to.Locked) > 0 {
			to.Locked[rt.Choice(len(to.Locked))].ID = gen.ID()
		}
	case 7: // a sub-allocation removed (funds moved to the balances)
		if len(to.Locked) > 0 {
			to.Locked = to.Locked[1:]
		}
	case 8: // a sub-allocation added
		to.Locked = append(to.Locked, channel.SubAlloc{ID: gen.ID(), Bals: gen.Bals(1), IndexMap: indexMap()})
	case 9: // sub-allocations reordered
		if len(to.Locked) > 1 {
			to.Locked[0], to.Locked[1] = to.Locked[1], to.Locked[0]
		}
	case 10: // another asset
		to.Assets = gen.Assets(1)
	case 11: // a balance column more / fewer
		if rt.Choice(2) == 0 {
			to.Balances[0] = to.Balances[0][:1]
		} else {
			to.Balances[0] = append(to.Balances[0], gen.Bal())
		}
	}
	return to
}

// sign: the adversary's signature material. Returns whether it is the peer's
// valid signature over exactly to.
func (s *situation) sign(to *channel.State) (wallet.Sig, bool) {
	if to.Valid() != nil { // cannot be encoded, hence not signed
		return make([]byte, 64), false
	}
	switch rt.Choice(5) {
	case 0:
		return s.w.Sign(1, to), true
	case 1: // over another state: same but for one balance
		o := to.Clone()
		o.Balances[0][0] = new(big.Int).Add(o.Balances[0][0], big.NewInt(1))
		return s.w.Sign(1, o), false
	case 2: // over the current state
		return s.w.Sign(1, s.cur), false
	case 3: // a stranger's signature over to
		return s.w.Sign(2, to), false
	}
	return make([]byte, 64), false
}

func pickDev(n int) int {
	if d := rt.Bound("dev", -1); d >= 0 {
		return d
	}
	mask := rt.Bound("devmask", -1) // bit i set: deviation i is drawn in this tier
	var allowed []int
	for i := 0; i < n; i++ {
		if mask < 0 || mask&(1<<uint(i)) != 0 {
			allowed = append(allowed, i)
		}
	}
	return allowed[rt.Choice(len(allowed))]
}

type observer struct {
	invoked bool
}

func (o *observer) handler() client.UpdateHandler {
	accept := rt.NondetBool()
	return client.UpdateHandlerFunc(func(_ *channel.State, _ client.ChannelUpdate, r *client.UpdateResponder) {
		o.invoked = true
		ctx, cancel := context.WithTimeout(context.Background(), 1000000000)
		defer cancel()
		if accept {
			_ = r.Accept(ctx)
		} else {
			_ = r.Reject(ctx, "no")
		}
	})
}

func accsOn(w *cw.World, id channel.ID) (n int, last *client.ChannelUpdateAccMsg) {
	for _, m := range w.Bus.Messages() {
		if a, ok := m.(*client.ChannelUpdateAccMsg); ok && a.ChannelID == id {
			n++
			last = a
		}
	}
	return
}

// VerifC07Update: an ordinary update message crafted by the channel peer (or a
// stranger).
func VerifC07Update() {
	s := newSituation(rt.Bound("maxLocked", 1))
	to := s.craft(pickDev(NumDev))
	sig, sigOK := s.sign(to)
	actor := channel.Index(rt.NondetU16())
	msg := &client.ChannelUpdateMsg{ChannelUpdate: client.ChannelUpdate{State: to, ActorIdx: actor}, Sig: sig}
	fromPeer := rt.Choice(4) != 0
	sender := s.w.PeerWire
	if !fromPeer {
		sender = s.w.Other
	}
	ok := s.acceptable(to, actor, sigOK)
	obs := &observer{}
	go s.w.Client.VerifHandleChannelUpdate(obs.handler(), sender, msg)
	rt.Quiesce()
	rt.Reach("c07.update")
	nacc, acc := accsOn(s.w, s.ch.ID())
	rt.Assert("c07.update.handler-only-for-acceptable", rt.Implies(obs.invoked, ok))
	rt.Assert("c07.update.countersigned-only-if-acceptable", rt.Implies(nacc > 0, ok))
	if ok {
		rt.Reach("c07.update.acceptable")
		rt.Assert("c07.update.acceptable-reaches-handler", obs.invoked)
	}
	curTX := s.ch.VerifMachine().CurrentTX()
	if nacc > 0 {
		rt.Reach("c07.update.countersigned")
		// the own signature is over exactly the proposed state, which became current
		v, err := channel.Verify(s.w.Own.Address(), to, acc.Sig)
		rt.Assert("c07.update.own-sig-over-proposed", err == nil && v && acc.Version == to.Version)
		rt.Assert("c07.update.proposed-became-current", curTX.State.Version == to.Version && curTX.State.Equal(to) == nil)
	} else {
		rt.Assert("c07.update.current-unchanged", curTX.State.Version == s.cur.Version && curTX.State.Equal(s.cur) == nil)
	}
}

var _ = wire.Ping
