package c07

import (
	"context"
	"math/big"

	"perun.network/go-perun/channel"
	"perun.network/go-perun/client"
	rt "perun.network/go-perun/internal/verifrt"
	"perun.network/go-perun/internal/verifh/gen"
)

func (s *situation) deliver(to *channel.State) (sigOK bool, obs *observer, actor channel.Index) {
	sig, ok := s.sign(to)
	actor = channel.Index(rt.NondetU16())
	msg := &client.ChannelUpdateMsg{ChannelUpdate: client.ChannelUpdate{State: to, ActorIdx: actor}, Sig: sig}
	obs = &observer{}
	go s.w.Client.VerifHandleChannelUpdate(obs.handler(), s.w.PeerWire, msg)
	return ok, obs, actor
}

// NumSubFundingDev is the number of deviations in VerifC07SubFunding.
const NumSubFundingDev = 7

// VerifC07SubFunding: the client expects the funding update of sub-channel S
// (it accepted the proposal); the peer sends a crafted parent update.
func VerifC07SubFunding() {
	s := newSituation(1)
	S := gen.ID()
	sub := gen.Bals(2) // the sub-channel's initial balances
	amount := new(big.Int).Add(sub[0], sub[1])
	s.ch.VerifRegisterSubChannelFunding(S, channel.Balances{sub})
	go func() {
		ctx, cancel := context.WithTimeout(context.Background(), 5000000000)
		defer cancel()
		_ = s.ch.VerifAwaitSubChannelFunding(ctx, S)
	}()
	to := s.cur.Clone()
	to.Version++
	to.Balances = channel.Balances{gen.Bals(2)} // arbitrary debits
	added := channel.SubAlloc{ID: S, Bals: []channel.Bal{amount}, IndexMap: []channel.Index{}}
	switch pickDev(NumSubFundingDev) {
	case 0:
	case 1:
		added.Bals = gen.Bals(1)
	case 2:
		added.IndexMap = []channel.Index{channel.Index(rt.NondetU16()), channel.Index(rt.NondetU16())}
	case 3:
		if len(to.Locked) > 0 {
			to.Locked[0].Bals = gen.Bals(1)
		}
	case 4:
		to.Locked = nil
	case 5:
		added.ID = gen.ID()
	case 6:
		if len(to.Locked) > 0 {
			to.Locked[0].ID = gen.ID()
		}
	}
	if rt.NondetBool() {
		to.Locked = append(to.Locked, added)
	} else {
		to.Locked = append([]channel.SubAlloc{added}, to.Locked...)
	}
	sigOK, obs, actor := s.deliver(to)
	// reference
	want := append(s.cur.Clone().Locked, channel.SubAlloc{ID: S, Bals: []channel.Bal{amount}, IndexMap: []channel.Index{}})
	safe := sigOK && s.successor(to) && sameLocked(want, to.Locked)
	for _, l := range s.cur.Locked {
		safe = safe && l.ID != S // S is not funded yet
	}
	for q := 0; safe && q < 2; q++ {
		safe = rt.BigEq(new(big.Int).Sub(s.cur.Balances[0][q], sub[q]), to.Balances[0][q])
	}
	rt.Quiesce()
	rt.Reach("c07.subfund")
	nacc, _ := accsOn(s.w, s.ch.ID())
	// countersigned automatically only if safe; otherwise only as an ordinary
	// acceptable update that the user's handler accepted
	ordinary := obs.invoked && s.acceptable(to, actor, sigOK)
	rt.Assert("c07.subfund.countersigned-only-if-safe", rt.Implies(nacc > 0, safe || ordinary))
	rt.Assert("c07.subfund.user-handler-only-for-acceptable", !obs.invoked || s.acceptable(to, actor, sigOK))
	if nacc > 0 {
		rt.Reach("c07.subfund.accepted")
	}
	if safe && int(actor) < 2 { // (the generic transition rules want an existing actor)
		rt.Reach("c07.subfund.safe")
		rt.Assert("c07.subfund.safe-funding-accepted", nacc == 1)
	}
	rt.Assert("c07.subfund.mutex-released", s.ch.VerifMachMtxFree())
}

// NumSubSettlementDev is the number of deviations in VerifC07SubSettlement.
const NumSubSettlementDev = 6

// VerifC07SubSettlement: the client's sub-channel S became final with balances
// fin; it expects the parent update that returns S's funds.
func VerifC07SubSettlement() {
	gen.K, gen.Exact = 1, true
	S := gen.ID()
	fin := gen.Bals(2)
	amount := new(big.Int).Add(fin[0], fin[1])
	s := newSituationWith(func(cur *channel.State) {
		sa := channel.SubAlloc{ID: S, Bals: []channel.Bal{amount}, IndexMap: []channel.Index{}}
		if rt.NondetBool() {
			cur.Locked = append(cur.Locked, sa)
		} else {
			cur.Locked = append([]channel.SubAlloc{sa}, cur.Locked...)
		}
	})
	s.ch.VerifRegisterSubChannelSettlement(S, [][]channel.Bal{fin})
	go func() {
		ctx, cancel := context.WithTimeout(context.Background(), 5000000000)
		defer cancel()
		_ = s.ch.VerifAwaitSubChannelWithdrawal(ctx, S)
	}()
	to := s.cur.Clone()
	to.Version++
	to.Balances = channel.Balances{gen.Bals(2)} // arbitrary credits
	var want []channel.SubAlloc
	for _, l := range s.cur.Clone().Locked {
		if l.ID != S {
			want = append(want, l)
		}
	}
	to.Locked = (&channel.Allocation{Locked: want}).Clone().Locked
	switch pickDev(NumSubSettlementDev) {
	case 0:
	case 1: // another sub-allocation's amount edited
		if len(to.Locked) > 0 {
			to.Locked[0].Bals = gen.Bals(1)
		}
	case 2: // another sub-allocation redirected to another channel
		if len(to.Locked) > 0 {
			to.Locked[0].ID = gen.ID()
		}
	case 3: // another sub-allocation's index map edited
		if len(to.Locked) > 0 {
			to.Locked[0].IndexMap = indexMap()
		}
	case 4: // another sub-allocation removed as well
		to.Locked = nil
	case 5: // S kept
		to.Locked = s.cur.Clone().Locked
	}
	sigOK, obs, actor := s.deliver(to)
	safe := sigOK && s.successor(to) && sameLocked(want, to.Locked)
	for q := 0; safe && q < 2; q++ {
		safe = rt.BigEq(new(big.Int).Add(s.cur.Balances[0][q], fin[q]), to.Balances[0][q])
	}
	rt.Quiesce()
	rt.Reach("c07.subsettle")
	nacc, _ := accsOn(s.w, s.ch.ID())
	ordinary := obs.invoked && s.acceptable(to, actor, sigOK)
	rt.Assert("c07.subsettle.countersigned-only-if-safe", rt.Implies(nacc > 0, safe || ordinary))
	rt.Assert("c07.subsettle.user-handler-only-for-acceptable", !obs.invoked || s.acceptable(to, actor, sigOK))
	if nacc > 0 {
		rt.Reach("c07.subsettle.accepted")
	}
	if safe && int(actor) < 2 {
		rt.Reach("c07.subsettle.safe")
		rt.Assert("c07.subsettle.safe-settlement-accepted", nacc == 1)
	}
	rt.Assert("c07.subsettle.mutex-released", s.ch.VerifMachMtxFree())
}
