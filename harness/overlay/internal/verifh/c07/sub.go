package c07

import (
	"perun.network/go-perun/wallet"
	"context"
	"math/big"

	"perun.network/go-perun/channel"
	"perun.network/go-perun/client"
	rt "perun.network/go-perun/internal/verifrt"
	"perun.network/go-perun/internal/verifh/gen"
)

func (s *situation) deliver(to *channel.State) (sigOK bool, obs *observer, actor channel.Index) {
	sig, ok := s.sign(to)
	actor = channel.Index(rt.NondetU16())
	msg := &client.ChannelUpdateMsg{ChannelUpdate: client.ChannelUpdate{State: to, ActorIdx: actor}, Sig: sig}
	obs = &observer{}
	go s.w.Client.VerifHandleChannelUpdate(obs.handler(), s.w.PeerWire, msg)
	return ok, obs, actor
}

// honestPayment: the peer pays the client an arbitrary amount with an ordinary
// update that the user's handler accepts; afterwards s.cur is the new state.
func (s *situation) honestPayment() {
	to := s.cur.Clone()
	to.Version++
	d := gen.Bal()
	peer := 1 - s.ownIdx
	rt.Assume(to.Balances[0][peer].Cmp(d) >= 0)
	to.Balances[0][peer] = new(big.Int).Sub(to.Balances[0][peer], d)
	to.Balances[0][s.ownIdx] = new(big.Int).Add(to.Balances[0][s.ownIdx], d)
	msg := &client.ChannelUpdateMsg{ChannelUpdate: client.ChannelUpdate{State: to, ActorIdx: channel.Index(peer)}, Sig: s.w.Sign(1, to)}
	before, _ := accsOn(s.w, s.ch.ID())
	go s.w.Client.VerifHandleChannelUpdate(client.UpdateHandlerFunc(func(_ *channel.State, _ client.ChannelUpdate, r *client.UpdateResponder) {
		ctx, cancel := context.WithTimeout(context.Background(), 1000000000)
		defer cancel()
		_ = r.Accept(ctx)
	}), s.w.PeerWire, msg)
	rt.Quiesce()
	after, _ := accsOn(s.w, s.ch.ID())
	rt.Assert("c07.honest-payment-accepted", after == before+1)
	s.cur = to
	s.accBase = after
}

// NumSubFundingDev is the number of deviations in VerifC07SubFunding.
const NumSubFundingDev = 7

// VerifC07SubFunding: the client expects the funding update of sub-channel S
// (it accepted the proposal); the peer sends a crafted parent update.
func VerifC07SubFunding() {
	s := newSituation(1)
	S := gen.ID()
	sub := gen.Bals(2) // the sub-channel's initial balances
	amount := new(big.Int).Add(sub[0], sub[1])
	s.ch.VerifRegisterSubChannelFunding(S, channel.Balances{sub})
	dev := pickDev(NumSubFundingDev)
	if dev == 0 && s.phase == channel.Acting && rt.NondetBool() {
		// the parent moves on between the accepted proposal and the funding update
		s.honestPayment()
	}
	go func() {
		ctx, cancel := context.WithTimeout(context.Background(), 5000000000)
		defer cancel()
		_ = s.ch.VerifAwaitSubChannelFunding(ctx, S)
	}()
	to := s.cur.Clone()
	to.Version++
	to.Balances = channel.Balances{gen.Bals(2)} // arbitrary debits
	added := channel.SubAlloc{ID: S, Bals: []channel.Bal{amount}, IndexMap: []channel.Index{}}
	switch dev {
	case 0:
	case 1:
		added.Bals = gen.Bals(1)
	case 2:
		added.IndexMap = []channel.Index{channel.Index(rt.NondetU16()), channel.Index(rt.NondetU16())}
	case 3:
		if len(to.Locked) > 0 {
			to.Locked[0].Bals = gen.Bals(1)
		}
	case 4:
		to.Locked = nil
	case 5:
		added.ID = gen.ID()
	case 6:
		if len(to.Locked) > 0 {
			to.Locked[0].ID = gen.ID()
		}
	}
	if rt.NondetBool() {
		to.Locked = append(to.Locked, added)
	} else {
		to.Locked = append([]channel.SubAlloc{added}, to.Locked...)
	}
	sigOK, obs, actor := s.deliver(to)
	// reference
	want := append(s.cur.Clone().Locked, channel.SubAlloc{ID: S, Bals: []channel.Bal{amount}, IndexMap: []channel.Index{}})
	safe := sigOK && s.successor(to) && sameLocked(want, to.Locked)
	for _, l := range s.cur.Locked {
		safe = safe && l.ID != S // S is not funded yet
	}
	for q := 0; safe && q < 2; q++ {
		safe = rt.BigEq(new(big.Int).Sub(s.cur.Balances[0][q], sub[q]), to.Balances[0][q])
	}
	rt.Quiesce()
	rt.Reach("c07.subfund")
	nacc, _ := accsOn(s.w, s.ch.ID())
	nacc -= s.accBase
	// countersigned automatically only if safe; otherwise only as an ordinary
	// acceptable update that the user's handler accepted
	ordinary := obs.invoked && s.acceptable(to, actor, sigOK)
	rt.Assert("c07.subfund.countersigned-only-if-safe", rt.Implies(nacc > 0, safe || ordinary))
	rt.Assert("c07.subfund.user-handler-only-for-acceptable", !obs.invoked || s.acceptable(to, actor, sigOK))
	if nacc > 0 {
		rt.Reach("c07.subfund.accepted")
	}
	if safe && int(actor) < 2 { // (the generic transition rules want an existing actor)
		rt.Reach("c07.subfund.safe")
		rt.Assert("c07.subfund.safe-funding-accepted", nacc == 1)
	}
	rt.Assert("c07.subfund.mutex-released", s.ch.VerifMachMtxFree())
}

// NumSubSettlementDev is the number of deviations in VerifC07SubSettlement.
const NumSubSettlementDev = 8

// VerifC07SubSettlement: the client's sub-channel S became final with balances
// fin; it expects the parent update that returns S's funds.
func VerifC07SubSettlement() {
	gen.K, gen.Exact = 1, true
	S := gen.ID()
	fin := gen.Bals(2)
	amount := new(big.Int).Add(fin[0], fin[1])
	dev := pickDev(NumSubSettlementDev)
	s := newSituationWith(func(cur *channel.State) {
		if dev >= 6 { // deviations on the order / multiplicity of the others need two of them
			for len(cur.Locked) < 2 {
				cur.Locked = append(cur.Locked, channel.SubAlloc{ID: gen.ID(), Bals: gen.Bals(1), IndexMap: []channel.Index{}})
			}
		}
		sa := channel.SubAlloc{ID: S, Bals: []channel.Bal{amount}, IndexMap: []channel.Index{}}
		if rt.NondetBool() {
			cur.Locked = append(cur.Locked, sa)
		} else {
			cur.Locked = append([]channel.SubAlloc{sa}, cur.Locked...)
		}
	})
	s.ch.VerifRegisterSubChannelSettlement(S, [][]channel.Bal{fin})
	go func() {
		ctx, cancel := context.WithTimeout(context.Background(), 5000000000)
		defer cancel()
		_ = s.ch.VerifAwaitSubChannelWithdrawal(ctx, S)
	}()
	to := s.cur.Clone()
	to.Version++
	to.Balances = channel.Balances{gen.Bals(2)} // arbitrary credits
	var want []channel.SubAlloc
	for _, l := range s.cur.Clone().Locked {
		if l.ID != S {
			want = append(want, l)
		}
	}
	to.Locked = (&channel.Allocation{Locked: want}).Clone().Locked
	switch dev {
	case 0:
	case 6: // the other sub-allocations in another order
		rt.Assume(len(to.Locked) == 2) // (their ids differ from S)
		to.Locked[0], to.Locked[1] = to.Locked[1], to.Locked[0]
	case 7: // one of the others twice, the second one dropped
		rt.Assume(len(to.Locked) == 2)
		to.Locked[1] = (&channel.Allocation{Locked: to.Locked[:1]}).Clone().Locked[0]
	case 1: // another sub-allocation's amount edited
		if len(to.Locked) > 0 {
			to.Locked[0].Bals = gen.Bals(1)
		}
	case 2: // another sub-allocation redirected to another channel
		if len(to.Locked) > 0 {
			to.Locked[0].ID = gen.ID()
		}
	case 3: // another sub-allocation's index map edited
		if len(to.Locked) > 0 {
			to.Locked[0].IndexMap = indexMap()
		}
	case 4: // another sub-allocation removed as well
		to.Locked = nil
	case 5: // S kept
		to.Locked = s.cur.Clone().Locked
	}
	sigOK, obs, actor := s.deliver(to)
	safe := sigOK && s.successor(to) && sameLocked(want, to.Locked)
	for q := 0; safe && q < 2; q++ {
		safe = rt.BigEq(new(big.Int).Add(s.cur.Balances[0][q], fin[q]), to.Balances[0][q])
	}
	rt.Quiesce()
	rt.Reach("c07.subsettle")
	nacc, _ := accsOn(s.w, s.ch.ID())
	ordinary := obs.invoked && s.acceptable(to, actor, sigOK)
	rt.Assert("c07.subsettle.countersigned-only-if-safe", rt.Implies(nacc > 0, safe || ordinary))
	rt.Assert("c07.subsettle.user-handler-only-for-acceptable", !obs.invoked || s.acceptable(to, actor, sigOK))
	if nacc > 0 {
		rt.Reach("c07.subsettle.accepted")
	}
	if safe && int(actor) < 2 {
		rt.Reach("c07.subsettle.safe")
		rt.Assert("c07.subsettle.safe-settlement-accepted", nacc == 1)
	}
	rt.Assert("c07.subsettle.mutex-released", s.ch.VerifMachMtxFree())
}

// VerifC07SubFinal: the settlement interceptor is installed by the real
// acceptUpdate when the peer's final sub-channel update is accepted; the
// parent's settlement update is then safe only if it credits exactly the
// balances of that accepted final state.
func VerifC07SubFinal() {
	gen.K, gen.Exact = 1, true
	var subParams *channel.Params
	sub0 := gen.Bals(2) // the sub-channel's current balances
	amount := new(big.Int).Add(sub0[0], sub0[1])
	var S channel.ID
	s := newSituationN(0, func(s *situation) {
		// sub-channel parameters: same participants, neither ledger nor virtual
		parts := make([]map[wallet.BackendID]wallet.Address, 2)
		parts[s.ownIdx] = map[wallet.BackendID]wallet.Address{channel.TestBackendID: s.w.Own.Address()}
		parts[1-s.ownIdx] = map[wallet.BackendID]wallet.Address{channel.TestBackendID: s.w.Peer.Address()}
		p, err := channel.NewParams(60, parts, channel.NoApp(), big.NewInt(99), false, false, channel.Aux{})
		rt.Assume(err == nil)
		subParams, S = p, p.ID()
		// the parent holds S's sub-allocation
		s.cur.Locked = []channel.SubAlloc{{ID: S, Bals: []channel.Bal{amount}, IndexMap: []channel.Index{}}}
	})
	rt.Assume(s.phase == channel.Acting)
	subCur := &channel.State{ID: S, Version: uint64(rt.NondetU8()), App: channel.NoApp(), Data: channel.NoData(),
		Allocation: channel.Allocation{Assets: s.cur.Assets, Backends: s.cur.Backends, Balances: channel.Balances{sub0}}}
	sch := s.w.Adopt(subParams, s.ownIdx, channel.Acting, subCur, s.ch)
	rt.Assert("c07.subfinal.is-sub-channel", sch.IsSubChannel())
	// 1. the peer's final update of the sub-channel (arbitrary outcome with the same total)
	fin := subCur.Clone()
	fin.Version++
	fin.IsFinal = true
	f0 := gen.Bal()
	f1 := new(big.Int).Sub(amount, f0)
	rt.Assume(f1.Sign() >= 0)
	fin.Balances = channel.Balances{{f0, f1}}
	peer := 1 - s.ownIdx
	m1 := &client.ChannelUpdateMsg{ChannelUpdate: client.ChannelUpdate{State: fin, ActorIdx: channel.Index(peer)}, Sig: s.w.Sign(1, fin)}
	go s.w.Client.VerifHandleChannelUpdate(client.UpdateHandlerFunc(func(_ *channel.State, _ client.ChannelUpdate, r *client.UpdateResponder) {
		ctx, cancel := context.WithTimeout(context.Background(), 1000000000)
		defer cancel()
		_ = r.Accept(ctx)
	}), s.w.PeerWire, m1)
	rt.Quiesce()
	nsub, _ := accsOn(s.w, S)
	rt.Assert("c07.subfinal.final-update-accepted", nsub == 1)
	// 2. the client waits for the parent update that returns the funds
	go func() {
		ctx, cancel := context.WithTimeout(context.Background(), 5000000000)
		defer cancel()
		_ = s.ch.VerifAwaitSubChannelWithdrawal(ctx, S)
	}()
	// 3. the peer's settlement update on the parent with arbitrary credits
	to := s.cur.Clone()
	to.Version++
	to.Locked = nil
	to.Balances = channel.Balances{gen.Bals(2)}
	sigOK, obs, actor := s.deliver(to)
	safe := sigOK && s.successor(to)
	credit := []*big.Int{f0, f1}
	for q := 0; safe && q < 2; q++ {
		safe = rt.BigEq(new(big.Int).Add(s.cur.Balances[0][q], credit[q]), to.Balances[0][q])
	}
	rt.Quiesce()
	rt.Reach("c07.subfinal")
	nacc, _ := accsOn(s.w, s.ch.ID())
	ordinary := obs.invoked && s.acceptable(to, actor, sigOK)
	rt.Assert("c07.subfinal.countersigned-only-if-safe", rt.Implies(nacc > 0, safe || ordinary))
	if safe && int(actor) < 2 {
		rt.Reach("c07.subfinal.safe")
		rt.Assert("c07.subfinal.safe-settlement-accepted", nacc == 1)
	}
}
