// Package mach: the channel state machine from an arbitrary invariant-
// satisfying state, one operation, checked against the fully-signed invariant
// (C01) and the documented phase automaton (C09).
package mach

import (
	"bytes"
	cryptorand "crypto/rand"
	"math/big"

	simwallet "perun.network/go-perun/backend/sim/wallet"
	"perun.network/go-perun/channel"
	"perun.network/go-perun/internal/verifh/gen"
	rt "perun.network/go-perun/internal/verifrt"
	"perun.network/go-perun/wallet"
)

// World is a channel with N participants whose keys the harness holds, plus a
// stranger's key.
type World struct {
	N        int
	Accs     []*simwallet.Account
	Stranger *simwallet.Account
	Params   *channel.Params
	Own      int
}

// NewWorld builds the channel parameters (concrete) for own index own.
func NewWorld(n, own int) *World { return NewWorldNonce(n, own, 1) }

// NewWorldNonce is NewWorld with a chosen nonce (another channel ID).
func NewWorldNonce(n, own int, nonce int64) *World {
	w := &World{N: n, Own: own, Stranger: simwallet.NewRandomAccount(cryptorand.Reader)}
	parts := make([]map[wallet.BackendID]wallet.Address, n)
	for i := 0; i < n; i++ {
		w.Accs = append(w.Accs, simwallet.NewRandomAccount(cryptorand.Reader))
		parts[i] = map[wallet.BackendID]wallet.Address{channel.TestBackendID: w.Accs[i].Address()}
	}
	p, err := channel.NewParams(60, parts, channel.NoApp(), big.NewInt(nonce), true, false, channel.Aux{})
	rt.Assume(err == nil)
	w.Params = p
	return w
}

// NewWorldIDWith is NewWorldNonce whose channel ID contains the byte b (store
// keys embed the raw ID, so separator-like bytes matter): the nonce is searched
// from start upwards; both the engine (concrete SHA-256) and a native run find
// their own.
func NewWorldIDWith(n, own int, start int64, b byte) *World {
	w := NewWorldNonce(n, own, start)
	for try := int64(1); try < 200; try++ {
		id := w.Params.ID()
		for _, x := range id {
			if x == b {
				return w
			}
		}
		p, err := channel.NewParams(60, w.Params.Parts, channel.NoApp(), big.NewInt(start+1000*try), true, false, channel.Aux{})
		rt.Assume(err == nil)
		w.Params = p
	}
	rt.Assume(false)
	return w
}

// OwnAcc returns the account map of the machine's owner.
func (w *World) OwnAcc() map[wallet.BackendID]wallet.Account {
	return map[wallet.BackendID]wallet.Account{channel.TestBackendID: w.Accs[w.Own]}
}

// State returns a well-formed state of the channel with symbolic leaves
// (1 asset, N participants, no locked funds, amounts of exactly one byte).
func (w *World) State() *channel.State {
	return &channel.State{
		ID: w.Params.ID(), Version: rt.NondetU64(), App: w.Params.App, Data: channel.NoData(), IsFinal: rt.NondetBool(),
		Allocation: channel.Allocation{Assets: gen.Assets(1), Backends: gen.Backends(1), Balances: channel.Balances{gen.Bals(w.N)}},
	}
}

// Sign signs s with participant i's key (i == N: the stranger).
func (w *World) Sign(i int, s *channel.State) wallet.Sig {
	acc := w.Stranger
	if i < w.N {
		acc = w.Accs[i]
	}
	sig, err := channel.Sign(acc, s, channel.TestBackendID)
	rt.Assume(err == nil)
	return sig
}

// Verifies reports whether sig is participant i's signature over s (real Verify).
func (w *World) Verifies(i int, s *channel.State, sig wallet.Sig) bool {
	if sig == nil || s == nil {
		return false
	}
	ok, err := channel.Verify(w.Accs[i].Address(), s, sig)
	return err == nil && ok
}

// Pre describes the machine state before the operation.
type Pre struct {
	Phase    channel.Phase
	Staging  channel.Transaction
	Current  channel.Transaction
	StgSlots []bool // which staging slots are filled
	CurKind  int    // 0 none, 1 fully signed, 2 adopted (all slots nil)
}

// Signing reports whether p is a signing phase.
func Signing(p channel.Phase) bool {
	return p == channel.InitSigning || p == channel.Signing || p == channel.Progressing
}

// ArbitraryMachine builds a machine in an arbitrary state satisfying the
// representation invariant I (DESIGN.md §3 C01).
func ArbitraryMachine(w *World) (*channel.StateMachine, *Pre) {
	pre := &Pre{}
	if rt.Bound("symPhase", 1) == 1 {
		// symbolic phase: the code's own comparisons split it as far as they care
		pre.Phase = channel.Phase(rt.NondetU8())
		rt.Assume(pre.Phase <= channel.Withdrawn)
	} else {
		pre.Phase = channel.Phase(rt.Choice(int(channel.Withdrawn) + 1))
	}
	// current transaction: absent exactly in the two initial phases
	if pre.Phase >= channel.Funding {
		pre.CurKind = 1 + rt.Choice(rt.Bound("curKinds", 2))
		cur := w.State()
		sigs := make([]wallet.Sig, w.N)
		if pre.CurKind == 1 {
			for i := range sigs {
				sigs[i] = w.Sign(i, cur)
			}
		}
		pre.Current = channel.Transaction{State: cur, Sigs: sigs}
	}
	// staging transaction: present in signing phases, optional elsewhere
	if Signing(pre.Phase) || rt.Choice(2) == 1 {
		stg := w.State()
		sigs := make([]wallet.Sig, w.N)
		pre.StgSlots = make([]bool, w.N)
		for i := range sigs {
			if rt.Choice(2) == 1 {
				sigs[i] = w.Sign(i, stg)
				pre.StgSlots[i] = true
			}
		}
		pre.Staging = channel.Transaction{State: stg, Sigs: sigs}
	}
	src := &gen.Source{IdxV: channel.Index(w.Own), ParamsV: w.Params, PhaseV: pre.Phase, Staging: pre.Staging, Current: pre.Current}
	m, err := channel.RestoreStateMachine(w.OwnAcc(), src)
	rt.Assume(err == nil)
	return m, pre
}

// Invariant is the representation invariant I evaluated on the machine through
// its public accessors and the real channel.Verify.
func Invariant(w *World, m *channel.StateMachine) bool {
	cur, stg := m.CurrentTX(), m.StagingTX()
	ok := true
	if cur.State != nil {
		if len(cur.Sigs) != w.N {
			return false
		}
		allNil, allOK := true, true
		for i, s := range cur.Sigs {
			if s != nil {
				allNil = false
			}
			allOK = rt.And(allOK, w.Verifies(i, cur.State, s))
		}
		ok = rt.And(ok, rt.Or(allNil, allOK))
	}
	if Signing(m.Phase()) && (stg.State == nil || len(stg.Sigs) != w.N) {
		return false
	}
	if stg.State != nil {
		for i, s := range stg.Sigs {
			if s != nil {
				ok = rt.And(ok, w.Verifies(i, stg.State, s))
			}
		}
	}
	if (cur.State == nil) != (m.Phase() < channel.Funding) {
		return false
	}
	return ok
}

// FullySigned: the user-level statement of C01 for the current transaction.
func FullySigned(w *World, m *channel.StateMachine) bool {
	cur := m.CurrentTX()
	if cur.State == nil {
		return true
	}
	if len(cur.Sigs) != w.N {
		return false
	}
	ok := true
	for i, s := range cur.Sigs {
		ok = rt.And(ok, w.Verifies(i, cur.State, s))
	}
	return ok
}

// Unsigned reports whether the current transaction exists with all slots nil.
func Unsigned(m *channel.StateMachine) bool {
	cur := m.CurrentTX()
	if cur.State == nil {
		return false
	}
	for _, s := range cur.Sigs {
		if s != nil {
			return false
		}
	}
	return true
}

// Operations.
const (
	OpInit = iota
	OpUpdate
	OpForceUpdate
	OpCheckUpdate
	OpSig
	OpAddSig
	OpDiscard
	OpEnableInit
	OpEnableUpdate
	OpEnableFinal
	OpSetFunded
	OpSetRegistering
	OpSetRegistered
	OpSetProgressing
	OpSetProgressed
	OpSetWithdrawing
	OpSetWithdrawn
	NumOps
)

// Args are the (symbolic) arguments of the chosen operation.
type Args struct {
	Op      int
	State   *channel.State // candidate / progressed state
	Alloc   channel.Allocation
	Actor   channel.Index
	SigIdx  int
	SigKind int
	Sig     wallet.Sig
	SigOK   bool // Sig is participant SigIdx's signature over the state it is checked against
	AllocOK bool
}

// Signature kinds offered to AddSig / CheckUpdate.
const (
	SigValid     = iota // by participant idx over the target state
	SigReplay           // by participant idx over another state (the current one, else a fresh one)
	SigOtherPart        // by another participant over the target state
	SigStranger         // by a non-participant over the target state
	SigGarbage          // 64 zero bytes
	SigShort            // wrong length
	SigNil
	NumSigKinds
)

// MakeSig produces a signature of the given kind for participant idx over target.
func (w *World) MakeSig(kind, idx int, target, other *channel.State) wallet.Sig {
	switch kind {
	case SigValid:
		return w.Sign(idx, target)
	case SigReplay:
		if other == nil {
			other = w.State()
		}
		return w.Sign(idx, other)
	case SigOtherPart:
		return w.Sign((idx+1)%w.N, target)
	case SigStranger:
		return w.Sign(w.N, target)
	case SigGarbage:
		return make([]byte, 64)
	case SigShort:
		return make([]byte, 10)
	}
	return nil
}

// DrawArgs draws the operation and its arguments.
func DrawArgs(w *World, m *channel.StateMachine, pre *Pre) *Args {
	a := &Args{Op: rt.Choice(NumOps)}
	switch a.Op {
	case OpInit:
		cols := w.N
		a.AllocOK = rt.Choice(2) == 0
		if !a.AllocOK {
			cols = w.N - 1
		}
		a.Alloc = channel.Allocation{Assets: gen.Assets(1), Backends: gen.Backends(1), Balances: channel.Balances{gen.Bals(cols)}}
	case OpUpdate, OpForceUpdate:
		a.State = w.State()
		a.State.ID = gen.IDLike(a.State.ID)
		a.Actor = channel.Index(rt.NondetU16())
		if a.Op == OpForceUpdate && rt.NondetBool() {
			// ForceUpdate does not validate: a state with a balance column missing
			a.State.Balances[0] = a.State.Balances[0][:w.N-1]
		}
	case OpCheckUpdate:
		a.State = w.State()
		a.State.ID = gen.IDLike(a.State.ID)
		a.Actor = channel.Index(rt.NondetU16())
		a.SigIdx = rt.Choice(w.N)
		a.SigKind = rt.Choice(rt.Bound("sigKinds", NumSigKinds))
		a.Sig = w.MakeSig(a.SigKind, a.SigIdx, a.State, pre.Current.State)
		a.SigOK = w.Verifies(a.SigIdx, a.State, a.Sig)
	case OpAddSig:
		a.SigIdx = rt.Choice(w.N)
		a.SigKind = rt.Choice(rt.Bound("sigKinds", NumSigKinds))
		target := pre.Staging.State
		if target == nil {
			target = w.State() // nothing staged: the signature is over some state
		}
		a.Sig = w.MakeSig(a.SigKind, a.SigIdx, target, pre.Current.State)
		a.SigOK = w.Verifies(a.SigIdx, target, a.Sig)
	case OpSetProgressing, OpSetProgressed:
		a.State = w.State()
	}
	return a
}

// Apply performs the operation on the machine.
func Apply(m *channel.StateMachine, a *Args) (sig wallet.Sig, err error) {
	switch a.Op {
	case OpInit:
		err = m.Init(a.Alloc, channel.NoData())
	case OpUpdate:
		err = m.Update(a.State, a.Actor)
	case OpForceUpdate:
		err = m.ForceUpdate(a.State, a.Actor)
	case OpCheckUpdate:
		err = m.CheckUpdate(a.State, a.Actor, a.Sig, channel.Index(a.SigIdx))
	case OpSig:
		sig, err = m.Sig()
	case OpAddSig:
		err = m.AddSig(channel.Index(a.SigIdx), a.Sig)
	case OpDiscard:
		err = m.DiscardUpdate()
	case OpEnableInit:
		err = m.EnableInit()
	case OpEnableUpdate:
		err = m.EnableUpdate()
	case OpEnableFinal:
		err = m.EnableFinal()
	case OpSetFunded:
		err = m.SetFunded()
	case OpSetRegistering:
		err = m.SetRegistering()
	case OpSetRegistered:
		err = m.SetRegistered()
	case OpSetProgressing:
		err = m.SetProgressing(a.State)
	case OpSetProgressed:
		err = m.SetProgressed(&channel.ProgressedEvent{State: a.State})
	case OpSetWithdrawing:
		err = m.SetWithdrawing()
	case OpSetWithdrawn:
		err = m.SetWithdrawn()
	}
	return
}

// Snapshot is the observable machine state.
type Snapshot struct {
	Phase    channel.Phase
	StgState *channel.State
	CurState *channel.State
	StgSigs  []wallet.Sig
	CurSigs  []wallet.Sig
	StgClone *channel.State
	CurClone *channel.State
}

// Snap records phase, transactions (by identity) and the signature slots.
func Snap(m *channel.StateMachine) *Snapshot {
	stg, cur := m.StagingTX(), m.CurrentTX()
	s := &Snapshot{Phase: m.Phase(), StgState: stg.State, CurState: cur.State,
		StgSigs: append([]wallet.Sig(nil), stg.Sigs...), CurSigs: append([]wallet.Sig(nil), cur.Sigs...)}
	if stg.State != nil {
		s.StgClone = stg.State.Clone()
	}
	if cur.State != nil {
		s.CurClone = cur.State.Clone()
	}
	return s
}

func sigsSame(a, b []wallet.Sig) bool {
	if len(a) != len(b) {
		return false
	}
	for i := range a {
		if (a[i] == nil) != (b[i] == nil) || !bytes.Equal(a[i], b[i]) {
			return false
		}
	}
	return true
}

// Same reports whether the machine is observably what the snapshot recorded:
// same phase, same transactions, same signature slots, states unmodified.
func (s *Snapshot) Same(m *channel.StateMachine) bool {
	stg, cur := m.StagingTX(), m.CurrentTX()
	if m.Phase() != s.Phase || stg.State != s.StgState || cur.State != s.CurState {
		return false
	}
	if !sigsSame(stg.Sigs, s.StgSigs) || !sigsSame(cur.Sigs, s.CurSigs) {
		return false
	}
	if s.StgClone != nil && s.StgClone.Equal(stg.State) != nil {
		return false
	}
	if s.CurClone != nil && s.CurClone.Equal(cur.State) != nil {
		return false
	}
	return true
}
