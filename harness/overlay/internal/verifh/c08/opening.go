package c08

import (
	"context"
	"math/big"
	"time"

	"perun.network/go-perun/channel"
	"perun.network/go-perun/client"
	"perun.network/go-perun/internal/verifh/cw"
	"perun.network/go-perun/internal/verifh/gen"
	rt "perun.network/go-perun/internal/verifrt"
	"perun.network/go-perun/wallet"
	"perun.network/go-perun/wire"
)

type noUpdates struct{}

func (noUpdates) HandleUpdate(*channel.State, client.ChannelUpdate, *client.UpdateResponder) {}

// VerifC08Opening: two honest clients run the whole two-party opening
// protocol for a ledger channel with arbitrary balances, nonce shares and
// challenge duration; the responder accepts or rejects.
func VerifC08Opening() {
	gen.K, gen.Exact = 1, true
	p := cw.NewPair()
	p.Net.Yield = true // a schedule point before every Publish returns
	accept := rt.NondetBool()
	var chB *client.Channel
	var errB error
	doneB := make(chan struct{}, 1)
	handlerB := client.ProposalHandlerFunc(func(prop client.ChannelProposal, r *client.ProposalResponder) {
		ctx, cancel := context.WithTimeout(context.Background(), 5000000000)
		defer cancel()
		if !accept {
			errB = r.Reject(ctx, "no")
			doneB <- struct{}{}
			return
		}
		lp := prop.(*client.LedgerChannelProposalMsg)
		acc := lp.Accept(map[wallet.BackendID]wallet.Address{channel.TestBackendID: p.Acc[1].Address()}, client.WithNonce(gen.ID()))
		chB, errB = r.Accept(ctx, acc)
		doneB <- struct{}{}
	})
	go p.C[1].Handle(handlerB, noUpdates{})
	go p.C[0].Handle(client.ProposalHandlerFunc(func(client.ChannelProposal, *client.ProposalResponder) {}), noUpdates{})
	al := &channel.Allocation{Assets: gen.Assets(1), Backends: gen.Backends(1), Balances: channel.Balances{gen.Bals(2)}}
	dur := 1 + uint64(rt.NondetU8())
	prop, err := client.NewLedgerChannelProposal(dur, map[wallet.BackendID]wallet.Address{channel.TestBackendID: p.Acc[0].Address()}, al,
		[]map[wallet.BackendID]wire.Address{p.Wire[0], p.Wire[1]}, client.WithNonce(gen.ID()))
	rt.Assume(err == nil)
	ctx, cancel := context.WithTimeout(context.Background(), 5000000000)
	defer cancel()
	chA, errA := p.C[0].ProposeChannel(ctx, prop)
	<-doneB
	rt.Quiesce()
	rt.Reach("c08.open")
	if !accept {
		rt.Assert("c08.open.rejected", errA != nil && chA == nil && errB == nil)
		return
	}
	rt.Assert("c08.open.both-succeed", errA == nil && errB == nil && chA != nil && chB != nil)
	if errA != nil || errB != nil || chA == nil || chB == nil {
		return
	}
	rt.Reach("c08.open.accepted")
	pa, pb := chA.Params(), chB.Params()
	rt.Assert("c08.open.same-id", pa.ID() == pb.ID() && chA.ID() == chB.ID())
	rt.Assert("c08.open.same-params", pa.ChallengeDuration == pb.ChallengeDuration && pa.ChallengeDuration == dur && rt.BigEq(pa.Nonce, pb.Nonce) &&
		pa.LedgerChannel && pb.LedgerChannel && !pa.VirtualChannel && !pb.VirtualChannel && len(pa.Parts) == 2 && len(pb.Parts) == 2)
	rt.Assert("c08.open.order", chA.Idx() == 0 && chB.Idx() == 1 &&
		pa.Parts[0][channel.TestBackendID].Equal(p.Acc[0].Address()) && pb.Parts[0][channel.TestBackendID].Equal(p.Acc[0].Address()) &&
		pa.Parts[1][channel.TestBackendID].Equal(p.Acc[1].Address()) && pb.Parts[1][channel.TestBackendID].Equal(p.Acc[1].Address()))
	for _, ch := range []*client.Channel{chA, chB} {
		var tx channel.Transaction
		var ph channel.Phase
		free := ch.VerifLocked(func(m channel.Source) { tx, ph = m.CurrentTX().Clone(), m.Phase() })
		rt.Assert("c08.open.mutex-free", free)
		ok := tx.State != nil && tx.State.Version == 0 && tx.State.ID == pa.ID() && !tx.State.IsFinal && len(tx.Sigs) == 2 &&
			rt.BigEq(tx.State.Balances[0][0], al.Balances[0][0]) && rt.BigEq(tx.State.Balances[0][1], al.Balances[0][1]) && len(tx.State.Locked) == 0
		rt.Assert("c08.open.initial-state", ok)
		if ok {
			for k := 0; k < 2; k++ {
				v, err := channel.Verify(p.Acc[k].Address(), tx.State, tx.Sigs[k])
				rt.Assert("c08.open.fully-signed", err == nil && v)
			}
		}
		rt.Assert("c08.open.phase", ph == channel.Acting)
	}
}

// VerifC08ProposalDuringUpdate: a sub-channel or virtual channel proposal
// arrives while an update of the parent channel is in flight (the user's update
// handler has not answered yet); the update is then accepted. The proposal must
// be judged against the parent state it finds once it can take the parent's
// lock, i.e. the state after the update.
func VerifC08ProposalDuringUpdate() {
	s := newSituation(true)
	w := s.w
	// the peer's update: any redistribution of the parent's funds
	to := s.pstate.Clone()
	to.Version++
	a := gen.Bal()
	b := new(big.Int).Sub(gen.SumBals(s.pstate.Balances[0]), a)
	rt.Assume(b.Sign() >= 0)
	to.Balances = channel.Balances{{a, b}}
	msg := &client.ChannelUpdateMsg{ChannelUpdate: client.ChannelUpdate{State: to, ActorIdx: 0}, Sig: w.Sign(1, to)}
	gate, inHandler := make(chan struct{}), make(chan struct{}, 1)
	uh := client.UpdateHandlerFunc(func(_ *channel.State, _ client.ChannelUpdate, r *client.UpdateResponder) {
		inHandler <- struct{}{}
		<-gate
		ctx, cancel := context.WithTimeout(context.Background(), 1000000000)
		defer cancel()
		_ = r.Accept(ctx)
	})
	updDone := make(chan struct{})
	go func() {
		defer close(updDone)
		w.Client.VerifHandleChannelUpdate(uh, w.PeerWire, msg)
	}()
	<-inHandler
	d := s.draw(1+rt.Choice(2), 0) // a well-formed sub-channel / virtual channel proposal with arbitrary funds
	invoked := false
	ph := client.ProposalHandlerFunc(func(client.ChannelProposal, *client.ProposalResponder) { invoked = true })
	propDone := make(chan struct{})
	go func() {
		defer close(propDone)
		w.Client.VerifHandleChannelProposal(ph, d.sender, d.prop)
	}()
	rt.Quiesce() // the proposal is handled as far as it gets while the update is pending
	close(gate)
	rt.QuiesceWait(updDone, 2*time.Second)
	rt.QuiesceWait(propDone, 2*time.Second)
	rt.Reach("c08.during")
	cur := s.parent.VerifMachine().CurrentTX().State
	rt.Assert("c08.during.update-accepted", cur.Version == to.Version)
	s.pstate = to // the state the proposal has to be judged against
	if invoked {
		rt.Reach("c08.during.invoked")
		rt.Assert("c08.during.only-valid-proposals", s.validRef(d))
	}
	rt.Assert("c08.during.parent-unlocked", s.parent.VerifMachMtxFree())
}
