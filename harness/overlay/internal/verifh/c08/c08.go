// Package c08: channel opening - bad proposals are dropped before the user's
// handler runs; both sides derive the same channel.
package c08

import (
	"math/big"

	simwallet "perun.network/go-perun/backend/sim/wallet"
	"perun.network/go-perun/channel"
	"perun.network/go-perun/client"
	"perun.network/go-perun/internal/verifh/cw"
	"perun.network/go-perun/internal/verifh/gen"
	rt "perun.network/go-perun/internal/verifrt"
	"perun.network/go-perun/wallet"
	"perun.network/go-perun/wire"
)

type situation struct {
	w       *cw.World
	parent  *client.Channel // nil: the client has no channel
	pstate  *channel.State
	pparams *channel.Params
}

// newSituation: the client (proposee, index 1 in new channels) with or
// without a ledger channel with the proposer.
func newSituation(withParent bool) *situation {
	gen.K, gen.Exact = 1, true
	s := &situation{w: cw.New()}
	if withParent {
		s.pparams = s.w.Params(1, 7, channel.NoApp(), false)
		s.pstate = &channel.State{ID: s.pparams.ID(), Version: 3, App: channel.NoApp(), Data: channel.NoData(),
			Allocation: channel.Allocation{Assets: gen.Assets(1), Backends: gen.Backends(1), Balances: channel.Balances{gen.Bals(2)}}}
		s.parent = s.w.Adopt(s.pparams, 1, channel.Acting, s.pstate, nil)
	}
	return s
}

// NumDev is the number of deviations.
const NumDev = 24

type drawn struct {
	prop   client.ChannelProposal
	sender map[wallet.BackendID]wire.Address
	kind   int // 0 ledger, 1 sub, 2 virtual
}

func walletAddr(a *simwallet.Account) map[wallet.BackendID]wallet.Address {
	return map[wallet.BackendID]wallet.Address{channel.TestBackendID: a.Address()}
}

// draw builds a proposal of the given kind with deviation dev (0 = none).
func (s *situation) draw(kind, dev int) *drawn {
	w := s.w
	d := &drawn{kind: kind, sender: w.PeerWire}
	assets, backends := gen.Assets(1), gen.Backends(1)
	if s.parent != nil && kind != 0 {
		assets, backends = s.pstate.Assets, s.pstate.Backends
	}
	al := &channel.Allocation{Assets: assets, Backends: backends, Balances: channel.Balances{gen.Bals(2)}}
	base := client.BaseChannelProposal{ProposalID: gen.ID(), ChallengeDuration: 1 + uint64(rt.NondetU8()), NonceShare: gen.ID(),
		App: channel.NoApp(), InitData: channel.NoData(), InitBals: al, FundingAgreement: al.Balances}
	peers := []map[wallet.BackendID]wire.Address{w.PeerWire, w.OwnWire}
	parents := []channel.ID{gen.ID(), {}}
	if s.parent != nil {
		parents[1] = s.pparams.ID()
	}
	indexMaps := [][]channel.Index{{0, 1}, {channel.Index(rt.Choice(2)), channel.Index(rt.Choice(2))}}
	participant := walletAddr(w.Peer)
	parentID := parents[1]
	switch dev {
	case 1:
		base.ChallengeDuration = 0
	case 2:
		base.App = nil
	case 3:
		base.InitBals = nil
	case 4: // one participant only
		al.Balances = channel.Balances{gen.Bals(1)}
		base.FundingAgreement = al.Balances
	case 5: // three participants
		al.Balances = channel.Balances{gen.Bals(3)}
		base.FundingAgreement = al.Balances
	case 6: // pre-locked funds
		al.Locked = []channel.SubAlloc{{ID: gen.ID(), Bals: gen.Bals(1)}}
	case 7: // assets / balances dimension mismatch
		al.Balances = channel.Balances{gen.Bals(2), gen.Bals(2)}
	case 8: // no balances at all (protobuf can deliver this)
		al.Balances = nil
	case 9:
		d.sender = w.Other
	case 10: // peers swapped: we are not at our index
		peers[0], peers[1] = peers[1], peers[0]
	case 11:
		peers = append(peers, w.Other)
	case 12:
		peers = peers[:1]
	case 13:
		participant = nil
	case 14: // unknown parent
		parentID = gen.ID()
		parents[1] = parentID
	case 15: // other assets
		al.Assets = gen.Assets(1)
	case 16: // other backends
		al.Backends = []wallet.BackendID{wallet.BackendID(1 + rt.NondetU8())}
	case 17: // funding agreement differs
		base.FundingAgreement = channel.Balances{gen.Bals(2)}
	case 18:
		parents = parents[1:]
	case 19:
		parents = append(parents, gen.ID())
	case 20:
		indexMaps = indexMaps[:1]
	case 21: // own index map too short / too long
		if rt.Choice(2) == 0 {
			indexMaps[1] = indexMaps[1][:1]
		} else {
			indexMaps[1] = append(indexMaps[1], 0)
		}
	case 22: // index map entry out of the parent's range
		indexMaps[1][rt.Choice(2)] = 2 + channel.Index(rt.NondetU8())
	case 23: // empty balance rows
		al.Balances = channel.Balances{{}}
	}
	switch kind {
	case 0:
		d.prop = &client.LedgerChannelProposalMsg{BaseChannelProposal: base, Participant: participant, Peers: peers}
	case 1:
		d.prop = &client.SubChannelProposalMsg{BaseChannelProposal: base, Parent: parentID}
	case 2:
		d.prop = &client.VirtualChannelProposalMsg{BaseChannelProposal: base, Proposer: participant, Peers: peers, Parents: parents, IndexMaps: indexMaps}
	}
	return d
}

func ge(a, b *big.Int) bool { return rt.BigLe(b, a) }

func assetsSame(x, y []channel.Asset, bx, by []wallet.BackendID) bool {
	if len(x) != len(y) || len(bx) != len(by) || len(x) != len(bx) {
		return false
	}
	ok := true
	for i := range x {
		ok = rt.And(ok, rt.And(x[i].Equal(y[i]), bx[i] == by[i]))
	}
	return ok
}

func wireSame(a, b map[wallet.BackendID]wire.Address) bool { return channel.EqualWireMaps(a, b) }

// validRef: DESIGN.md Appendix A.4 (the statement's list).
func (s *situation) validRef(d *drawn) bool {
	b := d.prop.Base()
	if b.InitBals == nil || b.ChallengeDuration == 0 || b.App == nil {
		return false
	}
	al := b.InitBals
	if len(al.Assets) == 0 || len(al.Balances) != len(al.Assets) || len(al.Backends) != len(al.Assets) || len(al.Locked) != 0 {
		return false
	}
	n := len(al.Balances[0])
	if n != 2 {
		return false
	}
	for _, row := range al.Balances {
		if len(row) != n {
			return false
		}
	}
	var peers []map[wallet.BackendID]wire.Address
	switch p := d.prop.(type) {
	case *client.LedgerChannelProposalMsg:
		peers = p.Peers
		if p.Participant == nil {
			return false
		}
	case *client.SubChannelProposalMsg:
		if s.parent == nil || p.Parent != s.pparams.ID() {
			return false
		}
		peers = s.parent.Peers()
	case *client.VirtualChannelProposalMsg:
		peers = p.Peers
	}
	if len(peers) != 2 || !wireSame(peers[0], d.sender) || !wireSame(peers[1], s.w.OwnWire) {
		return false
	}
	ok := true
	switch p := d.prop.(type) {
	case *client.SubChannelProposalMsg:
		ps := s.pstate
		if !assetsSame(ps.Assets, al.Assets, ps.Backends, al.Backends) {
			return false
		}
		for a := range al.Balances {
			for i := range al.Balances[a] {
				ok = rt.And(ok, ge(ps.Balances[a][i], al.Balances[a][i]))
			}
		}
	case *client.VirtualChannelProposalMsg:
		if len(p.Parents) != 2 || s.parent == nil || p.Parents[1] != s.pparams.ID() || len(p.IndexMaps) != 2 {
			return false
		}
		ps := s.pstate
		if !assetsSame(ps.Assets, al.Assets, ps.Backends, al.Backends) {
			return false
		}
		if len(b.FundingAgreement) != len(al.Balances) {
			return false
		}
		for a := range al.Balances {
			if len(b.FundingAgreement[a]) != len(al.Balances[a]) {
				return false
			}
			for i := range al.Balances[a] {
				ok = rt.And(ok, rt.BigEq(b.FundingAgreement[a][i], al.Balances[a][i]))
			}
		}
		im := p.IndexMaps[1]
		if len(im) != 2 {
			return false
		}
		for _, e := range im {
			if int(e) >= 2 {
				return false
			}
		}
		// parent balances >= virtual balances mapped through the index map (summed per parent participant)
		for a := range al.Balances {
			for q := 0; q < 2; q++ {
				sum := new(big.Int)
				for vp, e := range im {
					if int(e) == q {
						sum.Add(sum, al.Balances[a][vp])
					}
				}
				ok = rt.And(ok, ge(ps.Balances[a][q], sum))
			}
		}
	}
	return ok
}

// VerifC08Validation: a proposal reaches the user's handler only if it is
// valid for the receiver's situation; never a panic; parent lock released.
func VerifC08Validation() {
	withParent := rt.Choice(2) == 1
	s := newSituation(withParent)
	kind := rt.Choice(3)
	dev := rt.Choice(NumDev)
	d := s.draw(kind, dev)
	invoked := false
	ph := client.ProposalHandlerFunc(func(client.ChannelProposal, *client.ProposalResponder) { invoked = true })
	panicked := rt.Try(func() { s.w.Client.VerifHandleChannelProposal(ph, d.sender, d.prop) })
	rt.Assert("c08.valid.nopanic", !panicked)
	rt.Reach("c08.valid")
	if invoked {
		rt.Reach("c08.valid.invoked")
		rt.Assert("c08.valid.only-valid-proposals", s.validRef(d))
	}
	if s.parent != nil {
		rt.Assert("c08.valid.parent-unlocked", s.parent.VerifMachMtxFree())
	}
}

// VerifC08Agreement: both sides derive the same parameters from the same
// (proposal, accept) pair; the channel ID depends on a nonce contribution from
// each side; an accept message must match the proposal.
func VerifC08Agreement() {
	gen.K, gen.Exact = 1, true
	a, b := cw.New(), cw.New() // proposer-side and proposee-side clients
	al := &channel.Allocation{Assets: gen.Assets(1), Backends: gen.Backends(1), Balances: channel.Balances{gen.Bals(2)}}
	base := client.BaseChannelProposal{ProposalID: gen.ID(), ChallengeDuration: 1 + uint64(rt.NondetU8()), NonceShare: gen.ID(),
		App: channel.NoApp(), InitData: channel.NoData(), InitBals: al, FundingAgreement: al.Balances}
	kind := rt.Choice(2)
	var prop, prop2 client.ChannelProposal
	var acc, acc2 client.ChannelProposalAccept
	accBase := client.BaseChannelProposalAcc{ProposalID: base.ProposalID, NonceShare: gen.ID()}
	accBase2 := client.BaseChannelProposalAcc{ProposalID: base.ProposalID, NonceShare: gen.ID()}
	base2 := base
	base2.NonceShare = gen.ID()
	peers := []map[wallet.BackendID]wire.Address{a.OwnWire, b.OwnWire}
	switch kind {
	case 0:
		prop = &client.LedgerChannelProposalMsg{BaseChannelProposal: base, Participant: walletAddr(a.Own), Peers: peers}
		prop2 = &client.LedgerChannelProposalMsg{BaseChannelProposal: base2, Participant: walletAddr(a.Own), Peers: peers}
		acc = &client.LedgerChannelProposalAccMsg{BaseChannelProposalAcc: accBase, Participant: walletAddr(b.Own)}
		acc2 = &client.LedgerChannelProposalAccMsg{BaseChannelProposalAcc: accBase2, Participant: walletAddr(b.Own)}
	case 1:
		prop = &client.VirtualChannelProposalMsg{BaseChannelProposal: base, Proposer: walletAddr(a.Own), Peers: peers}
		prop2 = &client.VirtualChannelProposalMsg{BaseChannelProposal: base2, Proposer: walletAddr(a.Own), Peers: peers}
		acc = &client.VirtualChannelProposalAccMsg{BaseChannelProposalAcc: accBase, Responder: walletAddr(b.Own)}
		acc2 = &client.VirtualChannelProposalAccMsg{BaseChannelProposalAcc: accBase2, Responder: walletAddr(b.Own)}
	}
	exp := rt.Choice(3)
	full := rt.Bound("c08full", 0) == 1
	top := new(big.Int).Lsh(big.NewInt(1), 248)
	pa := a.Client.VerifDeriveParams(prop, acc)
	if exp != 0 && !full {
		rt.Assume(rt.BigLe(top, pa.Nonce)) // bound: nonce digests without leading zero byte
	}
	switch exp {
	case 0:
		pb := b.Client.VerifDeriveParams(prop, acc)
		rt.Reach("c08.agree")
		same := pa.ID() == pb.ID() && pa.ChallengeDuration == pb.ChallengeDuration && rt.BigEq(pa.Nonce, pb.Nonce) &&
			pa.LedgerChannel == pb.LedgerChannel && pa.VirtualChannel == pb.VirtualChannel && len(pa.Parts) == 2 && len(pb.Parts) == 2
		for i := 0; same && i < 2; i++ {
			same = pa.Parts[i][channel.TestBackendID].Equal(pb.Parts[i][channel.TestBackendID])
		}
		rt.Assert("c08.agree.same-params", same)
		rt.Assert("c08.agree.order", pa.Parts[0][channel.TestBackendID].Equal(a.Own.Address()) && pa.Parts[1][channel.TestBackendID].Equal(b.Own.Address()))
		rt.Assert("c08.agree.flags", pa.LedgerChannel == (kind == 0) && pa.VirtualChannel == (kind == 1))
		rt.Assert("c08.agree.challenge-duration", pa.ChallengeDuration == base.ChallengeDuration)
		// accept messages must match the proposal
		var wrongType client.ChannelProposalAccept = &client.SubChannelProposalAccMsg{BaseChannelProposalAcc: accBase}
		rt.Assert("c08.acc.wrong-type-refused", a.Client.VerifValidChannelProposalAcc(prop, wrongType) != nil)
		other := accBase
		other.ProposalID = gen.ID()
		var accOther client.ChannelProposalAccept = &client.LedgerChannelProposalAccMsg{BaseChannelProposalAcc: other, Participant: walletAddr(b.Own)}
		if kind == 1 {
			accOther = &client.VirtualChannelProposalAccMsg{BaseChannelProposalAcc: other, Responder: walletAddr(b.Own)}
		}
		rt.Assert("c08.acc.id-must-match", (a.Client.VerifValidChannelProposalAcc(prop, accOther) == nil) == (other.ProposalID == base.ProposalID))
		rt.Assert("c08.acc.matching-accepted", a.Client.VerifValidChannelProposalAcc(prop, acc) == nil)
	case 1:
		// the ID depends on the responder's nonce share
		p2 := a.Client.VerifDeriveParams(prop, acc2)
		if !full {
			rt.Assume(rt.BigLe(top, p2.Nonce))
		}
		rt.Reach("c08.agree.responder-share")
		rt.Assert("c08.agree.id-depends-on-responder-share", (pa.ID() == p2.ID()) == (accBase.NonceShare == accBase2.NonceShare))
	case 2:
		p3 := a.Client.VerifDeriveParams(prop2, acc)
		if !full {
			rt.Assume(rt.BigLe(top, p3.Nonce))
		}
		rt.Reach("c08.agree.proposer-share")
		rt.Assert("c08.agree.id-depends-on-proposer-share", (pa.ID() == p3.ID()) == (base.NonceShare == base2.NonceShare))
	}
}
