// Package c02: only valid successor states can be staged.
package c02

import (
	cryptorand "crypto/rand"
	"math/big"

	"perun.network/go-perun/apps/payment"
	simwallet "perun.network/go-perun/backend/sim/wallet"
	"perun.network/go-perun/channel"
	"perun.network/go-perun/internal/verifh/gen"
	rt "perun.network/go-perun/internal/verifrt"
	"perun.network/go-perun/wallet"
)

const nParts = 2

// bounded: amounts are exactly one byte long (used where states get encoded
// for signature verification); otherwise amounts are unbounded integers.
var bounded = false

func nats(n int) []channel.Bal {
	if bounded {
		return gen.Bals(n)
	}
	return gen.Nats(n)
}

func ints(n int) []channel.Bal {
	if bounded {
		return gen.Bals(n)
	}
	return gen.Ints(n)
}

type world struct {
	peer   *simwallet.Account
	acc    *simwallet.Account
	accs   map[wallet.BackendID]wallet.Account
	params *channel.Params
	app    int // 0 NoApp, 1 payment, 2 MockApp
}

func appOf(kind int, def *simwallet.Address) channel.App {
	switch kind {
	case 0:
		return channel.NoApp()
	case 1:
		return &payment.App{ID: gen.AppIDOf(def)}
	}
	return channel.NewMockApp(gen.AppIDOf(def))
}

func mkWorld() *world {
	w := &world{acc: simwallet.NewRandomAccount(cryptorand.Reader), app: rt.Choice(3)}
	peer := simwallet.NewRandomAccount(cryptorand.Reader)
	w.peer = peer
	w.accs = map[wallet.BackendID]wallet.Account{channel.TestBackendID: w.acc}
	parts := []map[wallet.BackendID]wallet.Address{
		{channel.TestBackendID: w.acc.Address()}, {channel.TestBackendID: peer.Address()},
	}
	def := &simwallet.Address{X: big.NewInt(11), Y: big.NewInt(12)}
	p, err := channel.NewParams(60, parts, appOf(w.app, def), big.NewInt(1), true, false, channel.Aux{})
	rt.Assume(err == nil)
	w.params = p
	return w
}

func dataFor(kind int) channel.Data {
	if kind == 2 {
		op := channel.OpValid
		return &op
	}
	return channel.NoData()
}

// curState: an arbitrary well-formed state of the channel (over-approximates
// the states reachable by accepted updates; closed under accepted updates,
// which is asserted).
func curState(w *world) *channel.State {
	a := 1 + rt.Choice(2)
	s := &channel.State{
		ID: w.params.ID(), Version: rt.NondetU64(), App: w.params.App, Data: dataFor(w.app), IsFinal: rt.NondetBool(),
		Allocation: channel.Allocation{Assets: gen.Assets(a), Backends: gen.Backends(a)},
	}
	s.Balances = make(channel.Balances, a)
	for i := range s.Balances {
		s.Balances[i] = nats(nParts)
	}
	if rt.Choice(2) == 1 {
		s.Locked = []channel.SubAlloc{{ID: gen.ID(), Bals: nats(a)}}
	}
	return s
}

// NShapes is the number of candidate shape variants.
const NShapes = 13

// candidate: an arbitrary successor candidate. Every leaf (ID, version, final
// flag, app definition, asset ids, amounts of any sign) is symbolic, so "same
// as current" and "different" are both inside one path; the shape relative to
// the current state (a assets, n participants, s sub-allocations) is one of
// NShapes variants.
func candidate(w *world, cur *channel.State, shape int) *channel.State {
	a, s := len(cur.Assets), len(cur.Locked)
	assets, rows, cols, nl := a, a, nParts, s
	raggedLast, lockedBals := -1, a
	switch shape {
	case 0: // same shape
	case 1:
		assets, rows, lockedBals = a+1, a+1, a+1
	case 2:
		assets, rows, lockedBals = a-1, a-1, a-1
	case 3:
		rows = a + 1
	case 4:
		rows = a - 1
	case 5:
		cols = nParts - 1
	case 6:
		cols = nParts + 1
	case 7:
		cols = 0
	case 8:
		raggedLast = nParts + 1
	case 9:
		raggedLast = nParts - 1
	case 10:
		nl = s + 1
	case 11:
		nl = s - 1
	case 12:
		lockedBals = a + 1
		nl = 1
	}
	rt.Assume(nl >= 0 && assets >= 0 && rows >= 0)
	to := &channel.State{ID: gen.IDLike(cur.ID), Version: rt.NondetU64(), IsFinal: rt.NondetBool()}
	switch rt.Choice(2) {
	case 0: // same kind of app, arbitrary definition (may equal the channel's)
		to.App, to.Data = appOf(w.app, gen.Address(1)), dataFor(w.app)
	case 1: // another kind of app
		to.App, to.Data = appOf((w.app+1)%3, &simwallet.Address{X: big.NewInt(11), Y: big.NewInt(12)}), dataFor(w.app)
	}
	to.Assets = gen.Assets(assets)
	to.Backends = gen.Backends(assets)
	if rows > 0 {
		to.Balances = make(channel.Balances, rows)
		for i := range to.Balances {
			to.Balances[i] = ints(cols)
		}
		if raggedLast >= 0 {
			to.Balances[rows-1] = ints(raggedLast)
		}
	}
	for i := 0; i < nl; i++ {
		to.Locked = append(to.Locked, channel.SubAlloc{ID: gen.ID(), Bals: ints(lockedBals)})
	}
	return to
}

func nonNeg(b *big.Int) bool { return b.Sign() >= 0 }

// wellFormed: the Allocation documentation, for a channel with n participants.
func wellFormed(al *channel.Allocation, n int) bool {
	if len(al.Assets) == 0 || len(al.Assets) > channel.MaxNumAssets || len(al.Locked) > channel.MaxNumSubAllocations {
		return false
	}
	if len(al.Balances) != len(al.Assets) {
		return false
	}
	ok := true
	for _, row := range al.Balances {
		if len(row) != n {
			return false
		}
		for _, b := range row {
			ok = rt.And(ok, nonNeg(b))
		}
	}
	for _, l := range al.Locked {
		if len(l.Bals) != len(al.Assets) {
			return false
		}
		for _, b := range l.Bals {
			ok = rt.And(ok, nonNeg(b))
		}
	}
	return ok
}

func sameApp(a, b channel.App) bool {
	if channel.IsNoApp(a) || channel.IsNoApp(b) {
		return channel.IsNoApp(a) && channel.IsNoApp(b)
	}
	return a.Def().Equal(b.Def())
}

func sumsEqual(x, y *channel.Allocation) bool {
	// both well-formed with the same number of assets
	ok := true
	for a := range x.Assets {
		sx, sy := new(big.Int), new(big.Int)
		for _, b := range x.Balances[a] {
			sx.Add(sx, b)
		}
		for _, l := range x.Locked {
			sx.Add(sx, l.Bals[a])
		}
		for _, b := range y.Balances[a] {
			sy.Add(sy, b)
		}
		for _, l := range y.Locked {
			sy.Add(sy, l.Bals[a])
		}
		ok = rt.And(ok, rt.BigEq(sx, sy))
	}
	return ok
}

func assetsEqual(x, y []channel.Asset) bool {
	if len(x) != len(y) {
		return false
	}
	ok := true
	for i := range x {
		ok = rt.And(ok, x[i].Equal(y[i]))
	}
	return ok
}

func appRule(w *world, cur, to *channel.State, actor channel.Index) bool {
	switch w.app {
	case 1: // payment: the actor's balances do not increase, nobody else's decrease
		ok := true
		for i := range cur.Balances {
			for j := range cur.Balances[i] {
				if int(actor) == j {
					ok = rt.And(ok, rt.BigLe(to.Balances[i][j], cur.Balances[i][j]))
				} else {
					ok = rt.And(ok, rt.BigLe(cur.Balances[i][j], to.Balances[i][j]))
				}
			}
		}
		return ok
	}
	return true
}

// refSuccessor is DESIGN.md Appendix A.1.
func refSuccessor(w *world, cur, to *channel.State, actor channel.Index) bool {
	if !wellFormed(&to.Allocation, nParts) || !sameApp(w.params.App, to.App) {
		return false
	}
	if !assetsEqual(cur.Assets, to.Assets) {
		return false
	}
	ok := rt.And(to.ID == w.params.ID(), rt.And(!cur.IsFinal, to.Version == cur.Version+1))
	ok = rt.And(ok, int(actor) < nParts)
	ok = rt.And(ok, sumsEqual(&cur.Allocation, &to.Allocation))
	if int(actor) < nParts {
		ok = rt.And(ok, appRule(w, cur, to, actor))
	}
	return ok
}

func machineAt(w *world, phase channel.Phase, cur *channel.State) *channel.StateMachine {
	src := &gen.Source{ParamsV: w.params, PhaseV: phase}
	if cur != nil {
		src.Current = channel.Transaction{State: cur, Sigs: make([]wallet.Sig, nParts)}
	}
	m, err := channel.RestoreStateMachine(w.accs, src)
	rt.Assume(err == nil)
	return m
}

// VerifC02Update: Update accepts only reference-valid successors, never
// panics, and leaves the machine untouched when it refuses.
func VerifC02Update() {
	w := mkWorld()
	cur := curState(w)
	to := candidate(w, cur, rt.Choice(NShapes))
	actor := channel.Index(rt.NondetU16())
	m := machineAt(w, channel.Acting, cur)
	var err error
	panicked := rt.Try(func() { err = m.Update(to, actor) })
	rt.Assert("c02.update.nopanic", !panicked)
	rt.Reach("c02.update")
	if err == nil {
		rt.Reach("c02.update.accepted")
		rt.Assert("c02.update.sound", refSuccessor(w, cur, to, actor))
		rt.Assert("c02.update.staged", m.Phase() == channel.Signing && m.StagingState() == to)
		// closure: an accepted candidate is again a well-formed state of this channel
		rt.Assert("c02.update.closed", wellFormed(&to.Allocation, nParts))
	} else {
		rt.Reach("c02.update.refused")
		rt.Assert("c02.update.atomic", m.Phase() == channel.Acting && m.StagingState() == nil && m.State() == cur)
		_, serr := m.Sig()
		rt.Assert("c02.update.never-signed", serr != nil)
	}
}

// VerifC02CheckUpdate: CheckUpdate accepts no more than Update and never
// modifies the machine.
func VerifC02CheckUpdate() {
	bounded, gen.K, gen.Exact = true, 1, true
	w := mkWorld()
	cur := curState(w)
	to := candidate(w, cur, 0)
	actor := channel.Index(rt.NondetU16())
	m := machineAt(w, channel.Acting, cur)
	var err error
	sig := make([]byte, 64)
	panicked := rt.Try(func() { err = m.CheckUpdate(to, actor, sig, channel.Index(rt.Choice(nParts))) })
	rt.Assert("c02.check.nopanic", !panicked)
	rt.Reach("c02.check")
	rt.Assert("c02.check.unsigned-refused", err != nil)
	rt.Assert("c02.check.readonly", m.Phase() == channel.Acting && m.StagingState() == nil && m.State() == cur)
}

// VerifC02CheckThenUpdate: CheckUpdate with the peer's valid signature accepts
// only reference-valid successors, and the verdict of one call does not carry
// over to the next: after CheckUpdate the caller changes the candidate (in
// place) or the actor and calls Update, which must judge what it is given.
func VerifC02CheckThenUpdate() {
	bounded, gen.K, gen.Exact = true, 1, true
	w := mkWorld()
	cur := curState(w)
	to := candidate(w, cur, 0)
	actor := channel.Index(rt.NondetU16())
	m := machineAt(w, channel.Acting, cur)
	sig := make([]byte, 64)
	signed := false
	if to.Valid() == nil && rt.NondetBool() {
		s, err := channel.Sign(w.peer, to, channel.TestBackendID)
		rt.Assume(err == nil)
		sig, signed = s, true
	}
	var err1 error
	panicked := rt.Try(func() { err1 = m.CheckUpdate(to, actor, sig, 1) })
	rt.Assert("c02.seq.check-nopanic", !panicked)
	if err1 == nil {
		rt.Reach("c02.seq.check-accepted")
		rt.Assert("c02.seq.check-sound", signed && refSuccessor(w, cur, to, actor))
	}
	rt.Assert("c02.seq.check-readonly", m.Phase() == channel.Acting && m.StagingState() == nil && m.State() == cur)
	actor2 := actor
	switch rt.Choice(4) {
	case 0:
	case 1: // funds edited in place
		to.Balances[0][0] = new(big.Int).Add(to.Balances[0][0], big.NewInt(1+int64(rt.NondetU8())))
	case 2:
		to.Version += 1 + uint64(rt.NondetU8())
	case 3:
		actor2 = channel.Index(rt.NondetU16())
	}
	var err2 error
	panicked = rt.Try(func() { err2 = m.Update(to, actor2) })
	rt.Assert("c02.seq.update-nopanic", !panicked)
	rt.Reach("c02.seq")
	if err2 == nil {
		rt.Reach("c02.seq.update-accepted")
		rt.Assert("c02.seq.update-sound-after-check", refSuccessor(w, cur, to, actor2))
	}
}

// VerifC02Init: Init accepts only well-formed allocations with one balance
// per participant; the staged state is version 0 with the channel's ID.
func VerifC02Init() {
	w := mkWorld()
	a := rt.Choice(3)
	al := channel.Allocation{Assets: gen.Assets(a), Backends: gen.Backends(a)}
	rows := a
	if rt.Choice(3) == 2 {
		rows = rt.Choice(3)
	}
	if rows > 0 {
		al.Balances = make(channel.Balances, rows)
		cols := rt.Choice(4)
		for i := range al.Balances {
			al.Balances[i] = gen.Ints(cols)
		}
		if rt.Choice(4) == 3 && rows > 1 {
			al.Balances[rows-1] = gen.Ints(rt.Choice(4))
		}
	}
	if rt.Choice(2) == 1 {
		nb := a
		if rt.Choice(2) == 1 {
			nb = a + 1
		}
		al.Locked = []channel.SubAlloc{{ID: gen.ID(), Bals: gen.Ints(nb)}}
	}
	var data channel.Data = channel.NoData()
	if rt.Choice(2) == 1 {
		op := channel.OpValid
		data = &op
	}
	// the payment app documents a panic for data other than NoData
	rt.Assume(w.app != 1 || channel.IsNoData(data))
	m, err := channel.NewStateMachine(w.accs, *w.params)
	rt.Assume(err == nil)
	panicked := rt.Try(func() { err = m.Init(al, data) })
	rt.Assert("c02.init.nopanic", !panicked)
	rt.Reach("c02.init")
	if err == nil {
		rt.Reach("c02.init.accepted")
		rt.Assert("c02.init.sound", wellFormed(&al, nParts))
		s := m.StagingState()
		rt.Assert("c02.init.state", s.ID == w.params.ID() && s.Version == 0 && !s.IsFinal && sameApp(s.App, w.params.App))
		rt.Assert("c02.init.phase", m.Phase() == channel.InitSigning)
		rt.Assert("c02.init.data", (w.app == 2) || channel.IsNoData(s.Data))
	} else {
		rt.Reach("c02.init.refused")
		rt.Assert("c02.init.atomic", m.Phase() == channel.InitActing && m.StagingState() == nil)
	}
}

// VerifC02Limits: Allocation.Valid at the exact documented limits.
func VerifC02Limits() {
	amount := rt.NondetNat()
	shared := func(n int) []channel.Bal {
		out := make([]channel.Bal, n)
		for i := range out {
			out[i] = amount
		}
		return out
	}
	asset := gen.Asset()
	mk := func(a, n, l int) channel.Allocation {
		al := channel.Allocation{Assets: make([]channel.Asset, a), Backends: gen.Backends(a), Balances: make(channel.Balances, a)}
		for i := range al.Assets {
			al.Assets[i] = asset
			al.Balances[i] = shared(n)
		}
		lb := shared(a)
		al.Locked = make([]channel.SubAlloc, l)
		for i := range al.Locked {
			al.Locked[i] = channel.SubAlloc{Bals: lb}
		}
		return al
	}
	over := rt.Choice(2)
	var al channel.Allocation
	switch rt.Choice(3) {
	case 0:
		al = mk(channel.MaxNumAssets+over, 2, 0)
	case 1:
		al = mk(1, channel.MaxNumParts+over, 0)
	case 2:
		al = mk(1, 2, channel.MaxNumSubAllocations+over)
	}
	rt.Reach("c02.limits")
	rt.Assert("c02.limits.exact", (al.Valid() == nil) == (over == 0))
}
