// Package c05: the watcher refutes with the newest channel-tree states, once,
// and relays events.
package c05

import (
	"errors"
	"context"
	"math/big"
	"sync"

	simchannel "perun.network/go-perun/backend/sim/channel"
	"perun.network/go-perun/channel"
	rt "perun.network/go-perun/internal/verifrt"
	"perun.network/go-perun/wallet"
	"perun.network/go-perun/watcher"
	"perun.network/go-perun/watcher/local"
)

// ---- scripted RegisterSubscriber

type sub struct {
	ch     chan channel.AdjudicatorEvent
	once   sync.Once
	closed chan struct{}
}

func (s *sub) Next() channel.AdjudicatorEvent {
	select {
	case e := <-s.ch:
		return e
	case <-s.closed:
		return nil
	}
}
func (s *sub) Err() error { return nil }
func (s *sub) Close() error {
	s.once.Do(func() { close(s.closed) })
	return nil
}

type regCall struct {
	parentID      channel.ID
	parentVersion uint64
	subIDs        []channel.ID
	subVersions   []uint64
	subNil        []bool
}

type ledger struct {
	mu    sync.Mutex
	subs  map[channel.ID]*sub
	calls []regCall
	fail  bool
}

func (l *ledger) Subscribe(_ context.Context, id channel.ID) (channel.AdjudicatorSubscription, error) {
	l.mu.Lock()
	defer l.mu.Unlock()
	s := &sub{ch: make(chan channel.AdjudicatorEvent, 4), closed: make(chan struct{})}
	l.subs[id] = s
	return s, nil
}

func (l *ledger) Register(_ context.Context, req channel.AdjudicatorReq, subStates []channel.SignedState) error {
	// an on-chain registration takes time: whatever the watcher's locking lets
	// run meanwhile is explored
	rt.SchedPoint("register")
	l.mu.Lock()
	defer l.mu.Unlock()
	c := regCall{parentID: req.Tx.ID, parentVersion: req.Tx.Version}
	for i, s := range subStates {
		if s.State == nil {
			c.subIDs, c.subVersions, c.subNil = append(c.subIDs, req.Tx.Locked[i].ID), append(c.subVersions, 0), append(c.subNil, true)
			continue
		}
		c.subIDs, c.subVersions, c.subNil = append(c.subIDs, s.State.ID), append(c.subVersions, s.State.Version), append(c.subNil, false)
	}
	l.calls = append(l.calls, c)
	if l.fail {
		return errors.New("ledger: registration failed")
	}
	return nil
}

func (l *ledger) numCalls() int {
	l.mu.Lock()
	defer l.mu.Unlock()
	return len(l.calls)
}

// ---- channels of the scenario

const (
	pIdx = 0 // the ledger channel
	sIdx = 1 // its sub-channel
)

type chanT struct {
	id       channel.ID
	params   *channel.Params
	watched  bool
	newest   uint64 // newest version published to the watcher (or the initial one)
	own      uint64 // version the watcher registered itself (0 if none)
	pub      watcher.StatesPub
	events   watcher.AdjudicatorSub
	relayed  []uint64 // versions of registered events relayed to the client
	other    int      // progressed/concluded events relayed
	archived bool
	archVer  uint64
}

type world struct {
	ctx    context.Context
	w      *local.Watcher
	l      *ledger
	c      [2]*chanT
	locked bool // the sub-channel is locked in the parent's newest state
	asset  channel.Asset
}

func (wd *world) state(i int, version uint64, locked bool) *channel.State {
	s := &channel.State{ID: wd.c[i].id, Version: version, App: channel.NoApp(), Data: channel.NoData(),
		Allocation: channel.Allocation{Assets: []channel.Asset{wd.asset}, Backends: []wallet.BackendID{channel.TestBackendID},
			Balances: channel.Balances{{big.NewInt(5), big.NewInt(5)}}}}
	if i == pIdx && locked {
		s.Locked = []channel.SubAlloc{{ID: wd.c[sIdx].id, Bals: []channel.Bal{big.NewInt(2)}}}
	}
	return s
}

func newWorld() *world {
	wd := &world{ctx: context.Background(), l: &ledger{subs: map[channel.ID]*sub{}}, asset: &simchannel.Asset{ID: 1}}
	w, err := local.NewWatcher(wd.l)
	rt.Assume(err == nil)
	wd.w = w
	wd.c[pIdx] = &chanT{id: channel.ID{0xA0}, params: &channel.Params{ChallengeDuration: 1}}
	wd.c[sIdx] = &chanT{id: channel.ID{0xB0}, params: &channel.Params{ChallengeDuration: 2}}
	return wd
}

func version() uint64 {
	v := rt.NondetU64()
	rt.Assume(v < 1<<60)
	return v
}

func (wd *world) startParent() {
	c := wd.c[pIdx]
	c.newest = version()
	wd.locked = false // a sub-channel can only be locked once the watcher knows it
	pub, ev, err := wd.w.StartWatchingLedgerChannel(wd.ctx, channel.SignedState{Params: c.params, State: wd.stateL(pIdx, c.newest)})
	rt.Assert("c05.start-parent-ok", err == nil)
	c.pub, c.events, c.watched = pub, ev, true
}

// stateL builds a state whose locked list follows wd.locked (a symbolic flag):
// both shapes are built and chosen by the flag.
func (wd *world) stateL(i int, v uint64) *channel.State {
	if i == pIdx && wd.locked {
		return wd.state(i, v, true)
	}
	return wd.state(i, v, false)
}

func (wd *world) startSub() {
	c := wd.c[sIdx]
	c.newest = version()
	pub, ev, err := wd.w.StartWatchingSubChannel(wd.ctx, wd.c[pIdx].id, channel.SignedState{Params: c.params, State: wd.state(sIdx, c.newest, false)})
	rt.Assert("c05.start-sub-ok", err == nil)
	c.pub, c.events, c.watched = pub, ev, true
	c.relayed, c.other = nil, 0
}

func (wd *world) publish(i int) {
	c := wd.c[i]
	d := uint64(rt.NondetU8())
	c.newest += 1 + d
	if i == pIdx {
		sc := wd.c[sIdx]
		wd.locked = rt.NondetBool()
		// only a sub-channel the watcher knows (watched, or archived while locked) can be locked
		rt.Assume(!wd.locked || sc.watched || sc.archived)
	}
	rt.Assert("c05.publish-ok", c.pub.Publish(wd.ctx, channel.Transaction{State: wd.stateL(i, c.newest)}) == nil)
}

// drain reads what the watcher relayed to the client for channel i.
func (wd *world) drain(i int) {
	c := wd.c[i]
	for {
		select {
		case e, ok := <-c.events.EventStream():
			if !ok {
				return
			}
			if r, isReg := e.(*channel.RegisteredEvent); isReg {
				c.relayed = append(c.relayed, r.Version())
			} else {
				c.other++
			}
		default:
			return
		}
	}
}

// event delivers an adjudicator event for channel i and checks the reaction
// against Appendix A.5.
func (wd *world) event(i int) {
	c := wd.c[i]
	kind := rt.Choice(3)
	e := version()
	before := wd.l.numCalls()
	otherBefore := c.other
	var ev channel.AdjudicatorEvent
	switch kind {
	case 0:
		ev = channel.NewRegisteredEvent(c.id, &channel.ElapsedTimeout{}, e, wd.state(i, e, false), nil)
	case 1:
		ev = channel.NewProgressedEvent(c.id, &channel.ElapsedTimeout{}, wd.state(i, e, false), 0)
	case 2:
		ev = channel.NewConcludedEvent(c.id, &channel.ElapsedTimeout{}, e)
	}
	// the on-chain registration triggered by this event may fail
	fail := rt.Bound("regFail", 1) == 1 && rt.NondetBool()
	wd.l.mu.Lock()
	wd.l.fail = fail
	s := wd.l.subs[c.id]
	wd.l.mu.Unlock()
	s.ch <- ev
	rt.Quiesce()
	wd.l.mu.Lock()
	wd.l.fail = false
	wd.l.mu.Unlock()
	wd.drain(i)
	calls := wd.l.numCalls() - before
	if kind != 0 {
		rt.Assert("c05.other-events-relayed", c.other == otherBefore+1)
		rt.Assert("c05.other-events-no-register", calls == 0)
		return
	}
	p := wd.c[pIdx]
	switch {
	case e < c.newest && e >= c.own:
		rt.Reach("c05.refuted")
		rt.Assert("c05.refute.once", calls == 1)
		if calls >= 1 {
			wd.l.mu.Lock()
			call := wd.l.calls[len(wd.l.calls)-1]
			wd.l.mu.Unlock()
			rt.Assert("c05.refute.newest-parent", call.parentID == p.id && call.parentVersion == p.newest)
			if wd.locked {
				sc := wd.c[sIdx]
				ok := len(call.subIDs) == 1 && call.subIDs[0] == sc.id
				if ok {
					if sc.watched {
						ok = !call.subNil[0] && call.subVersions[0] == sc.newest
					} else {
						ok = sc.archived && !call.subNil[0] && call.subVersions[0] == sc.archVer
					}
				}
				rt.Assert("c05.refute.sub-states", ok)
				if sc.watched && ok && !fail {
					sc.own = sc.newest
				}
			} else {
				rt.Assert("c05.refute.no-sub-states", len(call.subIDs) == 0)
			}
			if !fail { // a failed registration registered nothing: the next stale event is refuted again
				p.own = p.newest
			} else {
				rt.Reach("c05.refute-failed")
			}
		}
	case e >= c.newest:
		rt.Reach("c05.not-refuted")
		rt.Assert("c05.no-refute-when-nothing-newer", calls == 0)
	}
	// relayed registered events: strictly increasing (hence at most once each)
	for k := 1; k < len(c.relayed); k++ {
		rt.Assert("c05.relay.increasing", c.relayed[k-1] < c.relayed[k])
	}
}

func (wd *world) stopSub() {
	sc := wd.c[sIdx]
	err := wd.w.StopWatching(wd.ctx, sc.id)
	rt.Assert("c05.stop-sub-ok", err == nil)
	sc.watched = false
	if wd.locked {
		sc.archived, sc.archVer = true, sc.newest
	}
}

func (wd *world) stopParent() {
	p := wd.c[pIdx]
	var err error
	panicked := rt.Try(func() { err = wd.w.StopWatching(wd.ctx, p.id) })
	rt.Assert("c05.stop-parent.nopanic", !panicked)
	if wd.c[sIdx].watched {
		rt.Reach("c05.stop-refused")
		rt.Assert("c05.stop-parent.refused-while-sub-watched", local.IsErrSubChannelsPresent(err))
		return // the channel stays watched
	}
	rt.Assert("c05.stop-parent.ok", err == nil)
	p.watched = false
}

// VerifC05History: all histories of h steps.
func VerifC05History() {
	wd := newWorld()
	wd.startParent()
	h := rt.Bound("h", 3)
	for step := 0; step < h; step++ {
		p, s := wd.c[pIdx], wd.c[sIdx]
		switch rt.Choice(7) {
		case 0:
			rt.Assume(p.watched)
			wd.publish(pIdx)
		case 1:
			rt.Assume(s.watched)
			wd.publish(sIdx)
		case 2:
			rt.Assume(p.watched)
			wd.event(pIdx)
		case 3:
			rt.Assume(s.watched)
			wd.event(sIdx)
		case 4:
			rt.Assume(p.watched && !s.watched && !s.archived)
			wd.startSub()
		case 5:
			rt.Assume(s.watched)
			wd.stopSub()
		case 6:
			rt.Assume(p.watched)
			wd.stopParent()
		}
		rt.Quiesce()
	}
	rt.Reach("c05.history")
}

// VerifC05TwoEvents: the ledger channel and its sub-channel both have newer
// transactions; registered events for both arrive back to back, so that their
// handlers run concurrently (the Register stub is a schedule point). The
// handlers of one channel family are serialised, so the outcome must be that of
// processing the two events one after the other in one of the two orders.
func VerifC05TwoEvents() {
	wd := newWorld()
	wd.startParent()
	rt.Quiesce()
	wd.startSub()
	rt.Quiesce()
	wd.publish(pIdx)
	rt.Quiesce()
	wd.publish(sIdx)
	rt.Quiesce()
	p, s := wd.c[pIdx], wd.c[sIdx]
	e := [2]uint64{version(), version()}
	before := wd.l.numCalls()
	first := rt.Choice(2)
	for k := 0; k < 2; k++ {
		i := (first + k) % 2
		c := wd.c[i]
		ev := channel.NewRegisteredEvent(c.id, &channel.ElapsedTimeout{}, e[i], wd.state(i, e[i], false), nil)
		wd.l.mu.Lock()
		sb := wd.l.subs[c.id]
		wd.l.mu.Unlock()
		sb.ch <- ev
	}
	rt.Quiesce()
	wd.drain(pIdx)
	wd.drain(sIdx)
	calls := wd.l.numCalls() - before
	expect := func(a, b int) int {
		own := [2]uint64{p.own, s.own}
		n := 0
		for _, i := range []int{a, b} {
			if e[i] < wd.c[i].newest && e[i] >= own[i] {
				n++
				own[pIdx] = p.newest
				if wd.locked {
					own[sIdx] = s.newest
				}
			}
		}
		return n
	}
	rt.Reach("c05.two-events")
	rt.Assert("c05.two.refuted-as-if-sequential", calls == expect(pIdx, sIdx) || calls == expect(sIdx, pIdx))
	wd.l.mu.Lock()
	for _, call := range wd.l.calls[before:] {
		rt.Assert("c05.two.newest-parent", call.parentID == p.id && call.parentVersion == p.newest)
	}
	wd.l.mu.Unlock()
	for i := 0; i < 2; i++ {
		c := wd.c[i]
		for k := 1; k < len(c.relayed); k++ {
			rt.Assert("c05.two.relay-increasing", c.relayed[k-1] < c.relayed[k])
		}
	}
	if calls == 2 {
		rt.Reach("c05.two-events.two-refutations")
	}
}
