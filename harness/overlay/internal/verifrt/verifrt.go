// Package verifrt is the harness runtime. Natively it reads the values of the
// nondeterministic calls from a JSON vector (VERIF_VECTOR) and reports failed
// assertions; inside the symbolic engine the primitives marked "intrinsic" are
// intercepted and everything else is interpreted from this source.
package verifrt

import (
	"encoding/json"
	"sync"
	"time"
	"fmt"
	"math/big"
	"os"
	"runtime"
	"strconv"
)

// Entry is one nondeterministic value of a replay vector.
type Entry struct {
	K string `json:"k"`
	V string `json:"v"`
}

// Failure describes a failed assertion of a native run.
type Failure struct {
	Label string
}

var (
	vector   []Entry
	pos      int
	Failures []Failure
	Reached  []string
	Observed []string
	// Random is used instead of a vector when non-nil (translator validation).
	Random func(kind string, n int64) string
)

// Load reads the replay vector from the file named by VERIF_VECTOR.
func Load() error {
	p := os.Getenv("VERIF_VECTOR")
	if p == "" {
		return fmt.Errorf("VERIF_VECTOR not set")
	}
	data, err := os.ReadFile(p)
	if err != nil {
		return err
	}
	var f struct {
		Vector []Entry        `json:"vector"`
		Bounds map[string]int `json:"bounds"`
		Sched  []string       `json:"sched"`
	}
	if err := json.Unmarshal(data, &f); err != nil {
		return err
	}
	SetVector(f.Vector)
	bounds = f.Bounds
	setSchedOrder(f.Sched)
	return nil
}

var bounds map[string]int

// LoadBounds reads only the bound parameters from the VERIF_VECTOR file.
func LoadBounds() {
	p := os.Getenv("VERIF_VECTOR")
	if p == "" {
		return
	}
	data, err := os.ReadFile(p)
	if err != nil {
		return
	}
	var f struct {
		Bounds map[string]int `json:"bounds"`
	}
	if json.Unmarshal(data, &f) == nil {
		bounds = f.Bounds
	}
}

// Bound returns the value of a named bound parameter of the current tier, or
// def when the tier does not set it. (intrinsic)
func Bound(name string, def int) int {
	if v, ok := bounds[name]; ok {
		return v
	}
	return def
}

// SetVector installs a vector and resets the run state.
func SetVector(v []Entry) {
	var ms runtime.MemStats
	runtime.ReadMemStats(&ms)
	allocBase = ms.TotalAlloc
	vector, pos = v, 0
	Failures, Reached, Observed = nil, nil, nil
}

// Used returns the entries consumed so far.
func Used() []Entry { return vector[:pos] }

type vectorExhausted struct{}

func next(kind string, n int64) *big.Int {
	var s string
	if Random != nil {
		s = Random(kind, n)
		vector = append(vector[:pos], Entry{kind, s})
	} else {
		if pos >= len(vector) {
			// the engine stops a path at a failed assertion; the native run has
			// nothing more to replay
			panic(vectorExhausted{})
		}
		e := vector[pos]
		if e.K != kind {
			panic("verifrt: replay vector kind mismatch at " + strconv.Itoa(pos) + ": have " + e.K + ", want " + kind)
		}
		s = e.V
	}
	pos++
	v, ok := new(big.Int).SetString(s, 10)
	if !ok {
		panic("verifrt: bad vector value " + s)
	}
	return v
}

// NondetU8 returns an arbitrary byte. (intrinsic)
func NondetU8() uint8 { return uint8(next("u8", 0).Uint64()) }

// NondetU16 returns an arbitrary uint16. (intrinsic)
func NondetU16() uint16 { return uint16(next("u16", 0).Uint64()) }

// NondetU32 returns an arbitrary uint32. (intrinsic)
func NondetU32() uint32 { return uint32(next("u32", 0).Uint64()) }

// NondetU64 returns an arbitrary uint64. (intrinsic)
func NondetU64() uint64 { return next("u64", 0).Uint64() }

// NondetBool returns an arbitrary bool. (intrinsic)
func NondetBool() bool { return next("bool", 0).Sign() != 0 }

// NondetNat returns an arbitrary non-negative integer of any size. (intrinsic)
func NondetNat() *big.Int { return next("nat", 0) }

// NondetInt returns an arbitrary integer of any size and sign. (intrinsic)
func NondetInt() *big.Int { return next("int", 0) }

// Choice returns an arbitrary value in 0..n-1; the engine explores each
// alternative as a separate path. (intrinsic)
func Choice(n int) int {
	v := int(next("choice", int64(n)).Int64())
	if v < 0 || v >= n {
		panic("verifrt: choice out of range")
	}
	return v
}

// NondetBytes returns n arbitrary bytes.
func NondetBytes(n int) []byte {
	b := make([]byte, n)
	for i := range b {
		b[i] = NondetU8()
	}
	return b
}

// HintLo/HintHi tell the random generator of native translator-validation
// runs in which range [lo, hi) the next "nat" is expected (no effect on replay).
var HintLo, HintHi *big.Int

// NondetBig returns an arbitrary non-negative integer below 256^maxBytes.
func NondetBig(maxBytes int) *big.Int {
	HintLo, HintHi = new(big.Int), new(big.Int).Lsh(big.NewInt(1), uint(8*maxBytes))
	v := NondetNat()
	HintLo, HintHi = nil, nil
	Assume(v.Cmp(new(big.Int).Lsh(big.NewInt(1), uint(8*maxBytes))) < 0)
	return v
}

// NondetBigExact returns an arbitrary integer of exactly n bytes
// (256^(n-1) <= v < 256^n; n = 0 gives 0). (intrinsic: the engine remembers
// the byte length so that encoding the value does not fork)
func NondetBigExact(n int) *big.Int {
	if n == 0 {
		HintLo, HintHi = new(big.Int), big.NewInt(1)
	} else {
		HintLo, HintHi = new(big.Int).Lsh(big.NewInt(1), uint(8*(n-1))), new(big.Int).Lsh(big.NewInt(1), uint(8*n))
	}
	v := NondetNat()
	HintLo, HintHi = nil, nil
	if n == 0 {
		Assume(v.Sign() == 0)
		return v
	}
	Assume(v.Cmp(new(big.Int).Lsh(big.NewInt(1), uint(8*(n-1)))) >= 0)
	Assume(v.Cmp(new(big.Int).Lsh(big.NewInt(1), uint(8*n))) < 0)
	return v
}

type assumeViolated struct{}

// Assume restricts the explored inputs. (intrinsic)
func Assume(c bool) {
	if !c {
		panic(assumeViolated{})
	}
}

// Assert states a property. (intrinsic)
func Assert(label string, c bool) {
	if !c {
		Failures = append(Failures, Failure{label})
		fmt.Printf("VERIF-ASSERT-FAIL %s\n", label)
	}
}

// Reach marks a program point that must be reachable (vacuity guard). (intrinsic)
func Reach(label string) { Reached = append(Reached, label) }

// Known declares the class of inputs covered by a known finding; it affects
// the assertions that follow on the same path. (intrinsic)
func Known(id string, c bool) {}

// Observe records values for translator validation. (intrinsic)
func Observe(label string, vals ...interface{}) {
	Observed = append(Observed, label+"="+fmt.Sprint(vals...))
}

// MaxMake returns the largest length that was passed to make([]T, n) so far
// on this path (engine only; a native run cannot observe it and returns 0).
// (intrinsic)
func MaxMake() int { return 0 }

// MaxMakeAt is MaxMake restricted to the call sites whose function name
// contains one of the '|'-separated substrings (in = true) or none (in = false).
// (intrinsic; 0 natively)
func MaxMakeAt(sites string, in bool) int {
	if !in || !AllocProxy {
		return 0
	}
	// native proxy: bytes allocated since the vector was installed (a make of
	// n elements allocates at least n bytes); only used to confirm a finding
	// of the engine on the real build
	var ms runtime.MemStats
	runtime.ReadMemStats(&ms)
	return int(ms.TotalAlloc - allocBase)
}

var allocBase uint64

// AllocProxy enables the native allocation proxy of MaxMakeAt (replay only).
var AllocProxy = false

// Note attaches a free-text remark to the current path (diagnostics only). (intrinsic)
func Note(s string) {}

// And, Or, Implies, Not combine booleans without branching in the engine. (intrinsic)
func And(a, b bool) bool     { return a && b }
func Or(a, b bool) bool      { return a || b }
func Implies(a, b bool) bool { return !a || b }
func Iff(a, b bool) bool     { return a == b }

// EqBytes compares two byte slices without branching in the engine. (intrinsic)
func EqBytes(a, b []byte) bool {
	if len(a) != len(b) {
		return false
	}
	for i := range a {
		if a[i] != b[i] {
			return false
		}
	}
	return true
}

// BigEq, BigLe compare integers without branching in the engine. (intrinsic)
func BigEq(a, b *big.Int) bool { return a.Cmp(b) == 0 }
func BigLe(a, b *big.Int) bool { return a.Cmp(b) <= 0 }

// Try runs f and reports whether it panicked (assumption failures propagate).
func Try(f func()) (panicked bool) {
	defer func() {
		if e := recover(); e != nil {
			if _, ok := e.(assumeViolated); ok {
				panic(e)
			}
			if _, ok := e.(vectorExhausted); ok {
				panic(e)
			}
			LastPanic = fmt.Sprint(e)
			panicked = true
		}
	}()
	f()
	return false
}

// LastPanic holds the message of the last panic caught by Try.
var LastPanic string

// RunNative runs a harness natively against the loaded vector and returns the
// labels of failed assertions; a panic escaping the harness is reported as
// label "<name>.panic".
func RunNative(name string, h func()) (failed []string, panicMsg string, assumeFailed bool) {
	func() {
		defer func() {
			if e := recover(); e != nil {
				if _, ok := e.(assumeViolated); ok {
					assumeFailed = true
					return
				}
				if _, ok := e.(vectorExhausted); ok {
					return
				}
				panicMsg = fmt.Sprint(e)
				failed = append(failed, name+".panic")
				fmt.Printf("VERIF-ASSERT-FAIL %s.panic: %v\n", name, e)
			}
		}()
		h()
	}()
	for _, f := range Failures {
		failed = append(failed, f.Label)
	}
	return
}

// ---- schedule points ----------------------------------------------------

var (
	schedMu    sync.Mutex
	schedCond  = sync.NewCond(&schedMu)
	schedOrder []string // order in which SchedPoint tags are passed (replay)
	schedPos   int
	schedOn    bool
)

func setSchedOrder(o []string) {
	schedMu.Lock()
	schedOrder, schedPos, schedOn = o, 0, len(o) > 0
	schedMu.Unlock()
}

// SchedPoint marks a point in harness stubs at which the order of concurrent
// goroutines matters. Under the engine it is a voluntary yield: the scheduler
// may run any other runnable goroutine first (explored exhaustively when the
// obligation explores schedules) and records the order in which the tags are
// passed. In a native replay the recorded order is enforced: the call blocks
// until tag is next in the recorded order (it gives up ordering after a
// timeout so that a diverging run cannot hang). Without a recorded order it is
// a plain runtime.Gosched. (engine: intrinsic)
func SchedPoint(tag string) {
	schedMu.Lock()
	if !schedOn {
		schedMu.Unlock()
		runtime.Gosched()
		return
	}
	deadline := time.Now().Add(3 * time.Second)
	timer := time.AfterFunc(3*time.Second, func() { schedMu.Lock(); schedCond.Broadcast(); schedMu.Unlock() })
	defer timer.Stop()
	for schedOn && schedPos < len(schedOrder) && schedOrder[schedPos] != tag {
		if time.Now().After(deadline) {
			schedOn = false // diverged: stop enforcing
			schedCond.Broadcast()
			break
		}
		schedCond.Wait()
	}
	if schedOn && schedPos < len(schedOrder) {
		schedPos++
	}
	schedCond.Broadcast()
	schedMu.Unlock()
	// give the goroutine released before us a chance to act on its release
	time.Sleep(2 * time.Millisecond)
}
