package verifrt

import (
	"context"
	"sync"
	"time"
)

// The functions in this file are plain-Go models of context and timer
// primitives of the standard library whose real implementations depend on the
// runtime (timers, atomic.Value). The symbolic engine redirects context.With*
// and time.After/NewTimer to them and interprets them like any other code; a
// native build never calls them.

// EngineAfter runs f once d has passed on the engine's virtual clock: timers
// fire only when no goroutine can run, earliest first. (intrinsic)
func EngineAfter(d time.Duration, f func()) { time.AfterFunc(d, f) }

// CtxModel is a cancellable context.
type CtxModel struct {
	parent   context.Context
	mu       sync.Mutex
	done     chan struct{}
	err      error
	deadline time.Time
	hasDL    bool
	children []*CtxModel
	key, val interface{}
	isValue  bool
}

// Deadline implements context.Context.
func (c *CtxModel) Deadline() (time.Time, bool) {
	if c.hasDL {
		return c.deadline, true
	}
	return c.parent.Deadline()
}

// Done implements context.Context.
func (c *CtxModel) Done() <-chan struct{} {
	if c.isValue {
		return c.parent.Done()
	}
	return c.done
}

// Err implements context.Context.
func (c *CtxModel) Err() error {
	if c.isValue {
		return c.parent.Err()
	}
	c.mu.Lock()
	defer c.mu.Unlock()
	return c.err
}

// Value implements context.Context.
func (c *CtxModel) Value(k interface{}) interface{} {
	if c.isValue && c.key == k {
		return c.val
	}
	return c.parent.Value(k)
}

func (c *CtxModel) cancel(err error) {
	c.mu.Lock()
	if c.err != nil {
		c.mu.Unlock()
		return
	}
	c.err = err
	close(c.done)
	children := c.children
	c.children = nil
	c.mu.Unlock()
	for _, ch := range children {
		ch.cancel(err)
	}
}

func newCtx(parent context.Context) *CtxModel {
	if parent == nil {
		panic("cannot create context from nil parent")
	}
	c := &CtxModel{parent: parent, done: make(chan struct{})}
	// propagate cancellation
	p := parent
	for {
		if m, ok := p.(*CtxModel); ok && m.isValue {
			p = m.parent
			continue
		}
		break
	}
	if m, ok := p.(*CtxModel); ok {
		m.mu.Lock()
		if m.err != nil {
			err := m.err
			m.mu.Unlock()
			c.cancel(err)
		} else {
			m.children = append(m.children, c)
			m.mu.Unlock()
		}
	} else if pd := parent.Done(); pd != nil {
		select {
		case <-pd:
			c.cancel(parent.Err())
		default:
			go func() {
				select {
				case <-pd:
					c.cancel(parent.Err())
				case <-c.done:
				}
			}()
		}
	}
	return c
}

// WithCancelModel models context.WithCancel.
func WithCancelModel(parent context.Context) (context.Context, context.CancelFunc) {
	c := newCtx(parent)
	return c, func() { c.cancel(context.Canceled) }
}

// WithDeadlineModel models context.WithDeadline.
func WithDeadlineModel(parent context.Context, t time.Time) (context.Context, context.CancelFunc) {
	c := newCtx(parent)
	if cur, ok := parent.Deadline(); ok && cur.Before(t) {
		return c, func() { c.cancel(context.Canceled) }
	}
	c.deadline, c.hasDL = t, true
	d := time.Until(t)
	if d <= 0 {
		c.cancel(context.DeadlineExceeded)
	} else {
		EngineAfter(d, func() { c.cancel(context.DeadlineExceeded) })
	}
	return c, func() { c.cancel(context.Canceled) }
}

// WithTimeoutModel models context.WithTimeout.
func WithTimeoutModel(parent context.Context, d time.Duration) (context.Context, context.CancelFunc) {
	return WithDeadlineModel(parent, time.Now().Add(d))
}

// WithValueModel models context.WithValue.
func WithValueModel(parent context.Context, k, v interface{}) context.Context {
	return &CtxModel{parent: parent, key: k, val: v, isValue: true}
}

// AfterModel models time.After.
func AfterModel(d time.Duration) <-chan time.Time {
	ch := make(chan time.Time, 1)
	EngineAfter(d, func() { ch <- time.Time{} })
	return ch
}

// NewTimerModel models time.NewTimer (only the channel is usable).
func NewTimerModel(d time.Duration) *time.Timer {
	ch := make(chan time.Time, 1)
	EngineAfter(d, func() { ch <- time.Time{} })
	return &time.Timer{C: ch}
}

// Quiesce lets every other goroutine run until nothing can run any more
// (engine: a timer far in the future on the virtual clock; natively a short
// sleep).
func Quiesce() { time.Sleep(30 * time.Millisecond) }

// QuiesceFor is Quiesce for harnesses whose code under test arms real
// protocol timeouts: natively it sleeps d (long enough for them to fire); under
// the engine it is Quiesce (virtual time).
func QuiesceFor(d time.Duration) { time.Sleep(d) }

// QuiesceWait is QuiesceFor that returns early once done is closed (natively:
// the harness closes it when the goroutines it waits for have returned).
func QuiesceWait(done <-chan struct{}, max time.Duration) {
	select {
	case <-done:
	case <-time.After(max):
	}
	time.Sleep(30 * time.Millisecond)
}

// QuiesceModel is the engine's version of Quiesce.
func QuiesceModel() { <-AfterModel(1000 * time.Hour) }
