package multi

import "perun.network/go-perun/channel"

// LedgerIDsOf exposes assets.LedgerIDs to the verification harnesses
// (overlay-only file; not part of the repository).
func LedgerIDsOf(a []channel.Asset) ([]LedgerBackendID, error) { return assets(a).LedgerIDs() }
