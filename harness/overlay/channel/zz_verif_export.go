package channel

// Overlay-only file (not part of the repository).

// VerifPrevTXs exposes the machine's transaction history (which has no
// accessor) to the clone-independence harness.
func (m *machine) VerifPrevTXs() []Transaction { return m.prevTXs }
